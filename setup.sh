#!/bin/sh
# Builds the framework offline from files on disk only.
set -e
cd "$(dirname "$0")/harness"
export CARGO_NET_OFFLINE=true
unset RUSTFLAGS
cargo build --profile checked -p vcheck 2>&1 | grep -v '^warning\|^ *|\|^ *=\|^ *-->\|^$' | tail -5
cargo build --profile release -p vcheck 2>&1 | grep -v '^warning\|^ *|\|^ *=\|^ *-->\|^$' | tail -5
RUSTFLAGS="-Zsanitizer=address --cfg vigna_sux_rs_verif -C target-cpu=native" cargo +nightly build --profile asan --target x86_64-unknown-linux-gnu --target-dir target-asan -p vcheck 2>&1 | grep -v '^warning\|^ *|\|^ *=\|^ *-->\|^$' | tail -5
echo setup done
