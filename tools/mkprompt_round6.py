import json,glob,sys,re
ID=sys.argv[1]
tmpl=open('/verif/tools/seeded_prompt_round2.tmpl').read()
prop=[json.loads(l) for l in open('/verif/properties.jsonl')]
p=[x for x in prop if x['id']==ID][0]
txt=open(f'/verif/tools/seeded_property_texts/{ID}.property.txt').read()
open(f'/tmp/seeded/{ID}.property.txt','w').write(txt)
short=p.get('statement') or p.get('text') or p.get('title') or ''
out=tmpl.replace('@ID@',ID).replace('@PROP@',short).replace('-C/','-G/').replace('seeded_demo_C','seeded_demo_G').replace('call it C','call it G')
used=[]
for d in sorted(glob.glob(f'/verif/seeded/{ID}-*/meta.json')):
    try: used.append('- '+json.load(open(d)).get('summary','')[:260].replace('\n',' '))
    except Exception as e: pass
add=open('/verif/tools/seeded_prompt_round3_4_addenda.md').read()
paras=[re.split(r'\n\n',s,1)[1].strip() if False else s for s in []]
# collect the three "Also assume"/"Since then"/"And since then" paragraphs
ps=[x.strip() for x in add.split('\n\n') if x.strip().startswith(('Also assume','Since then','And since then'))]
g=("And in the latest round ALSO: every legal memory ordering for the atomic load/store/RMW operations; every key type that has a ToSig impl (integers of all widths, str/String/&[u8]/slices); selector inventory spans of exactly 2^32-1, 2^32, 2^32+1 bits and upper-block tails on vectors above 2^33 bits; blocks_per_inv/inventory parameters of 0 and 1; default trait methods exercised through a user-defined implementor of the crate's traits; sharded key counts where MaxShardTooBig retries are frequent; sequences of solver calls on the same system object; zstd key sources with long windows. Everything you try must escape ALL of the above.")
out+="\n\nIdeas ALREADY USED for this property by earlier rounds (do something different in kind, in a different function if possible):\n"+"\n".join(used)+"\n\n"+"\n\n".join(ps)+"\n\n"+g+"\n"
open(f'/tmp/seeded/{ID}.prompt6.txt','w').write(out)
print(ID,len(out))
