#!/usr/bin/env python3
"""Regenerates /verif/MANIFEST.json from the table below (kept in one place so
the manifest always validates)."""
import json, os, sys
V = os.path.dirname(os.path.dirname(os.path.abspath(__file__)))

# id -> (technique, level text, level note)   -- only properties whose check is built
CLAIMED = {
 "C06": ("model-based property testing: generated operation histories (byte strings decoded with arbitrary::Unstructured) against a Vec<bool> model, full-state comparison after every op, byte-level shrinking",
         "Generated-input search: tens of thousands (quick) to ~10^6 (thorough) operation histories over all construction routes, the growable/boxed/atomic forms and their conversions, with out-of-range accesses that must panic; every observation is compared with a Vec<bool> model after every step. Exploration, not proof: it shows the absence of violations only on the histories generated.",
         "Trusts the harness model (Vec<bool>) and the decoders; worker processes isolate aborting cases; the checked profile (debug assertions => std ub_checks) turns out-of-bounds get_unchecked into an abort that is reported as a violation."),
}

ALL = [json.loads(l)["id"] for l in open(os.path.join(V, "properties.jsonl"))]
checks = []
for pid in ALL:
    if pid not in CLAIMED:
        continue
    tech, text, note = CLAIMED[pid]
    checks.append({
        "property_id": pid,
        "quick_cmd": "./check %s --tier quick" % pid,
        "thorough_cmd": "./check %s --tier thorough" % pid,
        "evidence_file": "/verif/evidence/%s.json" % pid,
        "replay_cmd_template": "./check %s --replay {path}" % pid,
        "engine": "vcheck",
        "level_claimed": {"category": "exploration", "text": text, "design_ref": "DESIGN.md section 2, " + pid},
        "level_note": note,
        "technique": tech,
    })
m = {
 "version": 1,
 "setup_cmd": "./setup.sh",
 "hooks": {
  "guard": "--cfg vigna_sux_rs_verif",
  "enable": "harness/.cargo/config.toml passes rustflags --cfg vigna_sux_rs_verif (and -C target-cpu=native, as /repo/.cargo/config.toml does); sux is a path dependency on /repo, so every check rebuilds from /repo's working tree",
  "baseline_off_cmd": "cd /repo && cargo test --workspace --no-fail-fast --offline",
  "source_commits": [],
  "add_only": True,
 },
 "engines": [
  {"name": "vcheck", "path": "/verif/harness", "serves_properties": [c["property_id"] for c in checks],
   "kind_free_text": "own property-based-testing engine (Rust): seeded byte-string cases decoded with arbitrary::Unstructured, parent/worker process isolation, failure classification (mismatch / panic / no-panic / abort / nonconv), byte-level shrinking, replay files; driven by ./check (python3)"},
 ],
 "checks": checks,
 "notes": "Exit codes of ./check: 0 held, 1 violation (VIOLATION line), 2 inconclusive (build failure, watchdog, OOM). VERIF_SEED / VERIF_TIER honoured. known_findings.json lists open findings (none suppress anything outside their exact predicate) and fixed ones.",
 "not_applicable": [{"property_id": p, "reason": "check not built yet in this revision of /verif (work in progress, see DESIGN.md section 2 for the planned check)"} for p in ALL if p not in CLAIMED],
}
json.dump(m, open(os.path.join(V, "MANIFEST.json"), "w"), indent=1)
print("claimed", len(checks), "not claimed", len(m["not_applicable"]))
