#!/usr/bin/env python3
"""Regenerates /verif/MANIFEST.json from the table below (kept in one place so
the manifest always validates)."""
import json, os, sys
V = os.path.dirname(os.path.dirname(os.path.abspath(__file__)))

# id -> (technique, level text, level note)   -- only properties whose check is built
CLAIMED = {
 "C01": ("differential property testing against a prefix-popcount oracle over generated bit vectors x a menu of ~75 rank/select stacks",
         "Generated-input search over bit-vector descriptions (length classes around 64/512/2048-bit boundaries, densities 0.001..0.99, saturated/empty blocks, sparse gap lists, construction routes that leave stale bits: pop, shrinking resize, dirty raw parts) and a menu of rank-capable stacks (Rank9, the five RankSmall, boxed, under SelectAdapt/Const, Select9, SelectSmall, zero selectors, map re-wrappings); rank/rank_zero compared with prefix popcounts at every position up to len+2 (or boundary/sampled positions) and far beyond len; num_ones/count_ones/len/Index checked. Exploration: absence of violations only on what was generated.",
         "Trusts the harness oracle (prefix popcounts of the logical bits) and decoders. Vectors above 2^32 bits are only covered by the dedicated 'huge' cases of the thorough tier."),
 "C02": ("differential property testing against the positions of ones/zeros over generated bit vectors x selection structures x parameters",
         "Generated-input search over bit vectors (including prescribed gap lists around 2^16, ragged tails, stale bits) x selection stacks (Select9, SelectAdapt new/with_span/with_inv, 12 const (K,M) pairs, SelectSmall over each RankSmall, the zero twins, nestings) x generated parameters; select/select_zero compared with the oracle for every rank (sampled above 4096) and None beyond the count. Exploration level.",
         "Trusts the oracle (positions of ones / binary search on prefix counts for zeros). 64-bit spans (gaps > 2^32) need vectors above 2^32 bits: thorough-tier 'huge' cases only."),
 "C03": ("round-trip property testing: generated monotone sequences x builders x 9 selection back-ends, illegal pushes must be rejected",
         "Generated-input search over monotone sequences (duplicate runs crossing words, powers of two, huge gaps, u up to usize::MAX, (n,u) near the power-of-two split) built by push / extend / From<slice> / concurrent set in random order, then mapped onto 9 selection back-ends; len, get, iter, iter_from/into_iter_from at all starts with exact length hints compared with the input; out-of-order, too large and supernumerary pushes must panic and leave the builder usable. Exploration level.",
         "Trusts the input vector as oracle. Sequences are bounded (<= 10^5 elements in the thorough tier)."),
 "C04": ("property testing against an order-theoretic oracle (partition_point) over generated sequences and query lists covering the whole usize range",
         "Generated-input search over sequences as in C03 and, per sequence, ~100-250 queries (elements, neighbours, midpoints, bucket edges, u-1, u, u+1, 2u, 2^63, usize::MAX, random) on 5 select+select_zero back-ends; index_of/contains/succ/succ_strict/pred/pred_strict compared with partition_point on the sorted input, accepting any index that holds the returned value. Exploration level.",
         "Trusts the oracle; with duplicates any index holding the value is accepted, as the property states."),
 "C05": ("model-based property testing: generated operation histories per word type and bit width against a Vec of values, full-state comparison after every op",
         "Generated-input search: for each of the six word types, histories of <=60 operations (construction routes incl. macros and from_slice, push/pop/set/get/resize/clear/extend, positioned/unchecked/reverse iteration, equality, from_slice into every word type, boxed and atomic conversions with single-threaded atomic scripts) at widths 0..=BITS with all-ones/top-bit values; every observation is compared with a Vec model after every step; non-fitting values and out-of-range indices must panic and leave the contents unchanged. Exploration level.",
         "Trusts the Vec model and the decoders. set()/set_atomic() with width 0 is never generated (documented as undefined)."),
 "C06": ("model-based property testing: generated operation histories against a Vec<bool> model, full-state comparison after every op, byte-level shrinking",
         "Generated-input search: hundreds of thousands (quick) to millions (thorough) of operation histories over all construction routes, the growable/boxed/atomic forms and their conversions, with out-of-range accesses that must panic; every observation is compared with a Vec<bool> model after every step. Exploration, not proof: it shows the absence of violations only on the histories generated.",
         "Trusts the harness model (Vec<bool>) and the decoders; worker processes isolate aborting cases; the checked profile (debug assertions => std ub_checks) turns out-of-bounds get_unchecked into an abort that is reported as a violation."),
}

ALL = [json.loads(l)["id"] for l in open(os.path.join(V, "properties.jsonl"))]
checks = []
for pid in ALL:
    if pid not in CLAIMED:
        continue
    tech, text, note = CLAIMED[pid]
    checks.append({
        "property_id": pid,
        "quick_cmd": "./check %s --tier quick" % pid,
        "thorough_cmd": "./check %s --tier thorough" % pid,
        "evidence_file": "/verif/evidence/%s.json" % pid,
        "replay_cmd_template": "./check %s --replay {path}" % pid,
        "engine": "vcheck",
        "level_claimed": {"category": "exploration", "text": text, "design_ref": "DESIGN.md section 2, " + pid},
        "level_note": note,
        "technique": tech,
    })
m = {
 "version": 1,
 "setup_cmd": "./setup.sh",
 "hooks": {
  "guard": "--cfg vigna_sux_rs_verif",
  "enable": "harness/.cargo/config.toml passes rustflags --cfg vigna_sux_rs_verif (and -C target-cpu=native, as /repo/.cargo/config.toml does); sux is a path dependency on /repo, so every check rebuilds from /repo's working tree",
  "baseline_off_cmd": "cd /repo && cargo test --workspace --no-fail-fast --offline",
  "source_commits": [],
  "add_only": True,
 },
 "engines": [
  {"name": "vcheck", "path": "/verif/harness", "serves_properties": [c["property_id"] for c in checks],
   "kind_free_text": "own property-based-testing engine (Rust): seeded byte-string cases decoded with arbitrary::Unstructured, parent/worker process isolation, failure classification (mismatch / panic / no-panic / abort / nonconv), byte-level shrinking, replay files; driven by ./check (python3)"},
 ],
 "checks": checks,
 "notes": "Exit codes of ./check: 0 held, 1 violation (VIOLATION line), 2 inconclusive (build failure, watchdog, OOM). VERIF_SEED / VERIF_TIER honoured. known_findings.json lists open findings (none suppress anything outside their exact predicate) and fixed ones.",
 "not_applicable": [{"property_id": p, "reason": "check not built yet in this revision of /verif (work in progress, see DESIGN.md section 2 for the planned check)"} for p in ALL if p not in CLAIMED],
}
json.dump(m, open(os.path.join(V, "MANIFEST.json"), "w"), indent=1)
print("claimed", len(checks), "not claimed", len(m["not_applicable"]))
