#!/usr/bin/env python3
"""Regenerates /verif/MANIFEST.json from the table below (kept in one place so
the manifest always validates)."""
import json, os, sys
V = os.path.dirname(os.path.dirname(os.path.abspath(__file__)))

# id -> (technique, level text, level note)   -- only properties whose check is built
CLAIMED = {
 "C01": ("differential property testing against a prefix-popcount oracle over generated bit vectors x a menu of ~75 rank/select stacks",
         "Generated-input search over bit-vector descriptions (length classes around 64/512/2048-bit boundaries, densities 0.001..0.99, saturated/empty blocks, sparse gap lists, construction routes that leave stale bits: pop, shrinking resize, dirty raw parts) and a menu of rank-capable stacks (Rank9, the five RankSmall, boxed, under SelectAdapt/Const, Select9, SelectSmall, zero selectors, map re-wrappings); rank/rank_zero compared with prefix popcounts at every position up to len+2 (or boundary/sampled positions) and far beyond len; num_ones/count_ones/len/Index checked. Exploration: absence of violations only on what was generated.",
         "Trusts the harness oracle (prefix popcounts of the logical bits) and decoders. Vectors above 2^32, 2^33 and 2^34 bits (dense, sparse, all ones, three upper blocks, upper blocks that are empty except for their last counter block) are enumerated cases of both tiers."),
 "C02": ("differential property testing against the positions of ones/zeros over generated bit vectors x selection structures x parameters",
         "Generated-input search over bit vectors (including prescribed gap lists around 2^16, ragged tails, stale bits) x selection stacks (Select9, SelectAdapt new/with_span/with_inv, 12 const (K,M) pairs, SelectSmall over each RankSmall, the zero twins, nestings) x generated parameters; select/select_zero compared with the oracle for every rank (sampled above 4096) and None beyond the count. Exploration level.",
         "Trusts the oracle (positions of ones / binary search on prefix counts for zeros). 64-bit spans, mixed 16/32/64-bit span classes irregular dense vectors with long second/third upper blocks and inventory spans of exactly 2^32 - 1, 2^32, 2^32 + 1 bits are enumerated cases above 2^32 bits in both tiers; blocks_per_inv ranges over {0, 1, 2, 3, 8, 16, 64}. An enumerated segment places one group of 512 ones over exactly B units of 256 bits for B at, below and above every span class of a two-level inventory (1, 2, 16, 128, 256, 512), with 1..511 ones packed at the end of the group, under every Select9 stack."),
 "C03": ("round-trip property testing: generated monotone sequences x builders x 9 selection back-ends, illegal pushes must be rejected",
         "Generated-input search over monotone sequences (duplicate runs crossing words, powers of two, huge gaps, u up to usize::MAX, (n,u) near the power-of-two split) built by push / extend / From<slice> / concurrent set in random order, then mapped onto 9 selection back-ends; len, get, iter, iter_from/into_iter_from at all starts with exact length hints compared with the input; out-of-order, too large and supernumerary pushes must panic and leave the builder usable; plus enumerated long skewed sequences (70000..1.7 million values) whose selector inventory entries span exactly 2^k-1, 2^k, 2^k+1 bits; iterators are also driven through nth/skip/step_by/count/last scripts against the model iterator. Exploration level.",
         "Trusts the input vector as oracle. Random sequences are bounded (<= 10^5 elements in the thorough tier); the enumerated skewed sequences reach 1.7 million."),
 "C04": ("property testing against an order-theoretic oracle (partition_point) over generated sequences and query lists covering the whole usize range",
         "Generated-input search over sequences as in C03 and, per sequence, ~100-250 queries (elements, neighbours, midpoints, bucket edges, u-1, u, u+1, 2u, 2^63, usize::MAX, random) on 5 select+select_zero back-ends; index_of/contains/succ/succ_strict/pred/pred_strict compared with partition_point on the sorted input, accepting any index that holds the returned value; every query also runs through the &T/&&T forwarding impls and on the enumerated long skewed sequences of C03. Exploration level.",
         "Trusts the oracle; with duplicates any index holding the value is accepted, as the property states."),
 "C05": ("model-based property testing: generated operation histories per word type and bit width against a Vec of values, full-state comparison after every op",
         "Generated-input search: for each of the six word types, histories of <=60 operations (construction routes incl. macros and from_slice, push/pop/set/get/resize/clear/extend, positioned/unchecked/reverse iteration, equality, from_slice into every word type, boxed and atomic conversions with single-threaded atomic scripts) at widths 0..=BITS with all-ones/top-bit values; every observation is compared with a Vec model after every step; non-fitting values and out-of-range indices must panic and leave the contents unchanged; histories include garbage written through as_mut_slice() beyond the contents, extends from iterators with exact/(0,Some(n))/(0,Some(usize::MAX))/(0,None) size hints, extends left by a panic, equality against borrowed views of the vector's own words, Iterator-protocol scripts (nth/skip/step_by/...), and every memory ordering that is legal for the atomic operation. Exploration level.",
         "Trusts the Vec model and the decoders. set()/set_atomic() with width 0 is never generated (documented as undefined)."),
 "C06": ("model-based property testing: generated operation histories against a Vec<bool> model, full-state comparison after every op, byte-level shrinking",
         "Generated-input search: hundreds of thousands (quick) to millions (thorough) of operation histories over all construction routes, the growable/boxed/atomic forms and their conversions, with out-of-range accesses that must panic; every observation is compared with a Vec<bool> model after every step; the same additions as C05 (scribbled storage, size-hint variety, alias views, Iterator-protocol scripts) plus enumerated vectors above 2^32 bits. Exploration, not proof: it shows the absence of violations only on the histories generated.",
         "Trusts the harness model (Vec<bool>) and the decoders; worker processes isolate aborting cases; the checked profile (debug assertions => std ub_checks) turns out-of-bounds get_unchecked into an abort that is reported as a violation."),
}


CLAIMED.update({
 "C07": ("property testing of builder configurations: generated (type-table row, key set, values, configuration[, second configuration]) plus enumeration of every n<=130 on every row; oracle = the input pairs; deterministic attempt bound instead of a clock",
         "Generated-input search over a 20-row table of concrete builder types (5 key types x 5 value words x 2 backends x 64/128-bit signatures x the 5 shard/edge logics), every n in 0..=130 per row, thousands of random configurations (offline, low_mem, threads, eps, buckets, seed, expected_num_keys absent/exact/inexact/in another sharding regime, check_dups) with n<=3000, sizes around the 100k/200k/400k/800k/1.7M regime switches, and an enumerated segment of builds in the pure peeling regimes (800001 keys on the sharded logics, 100001.. on FuseLge3NoShards; thorough up to 2.05*10^7 keys) with low- and high-memory peelers (including 400000/799999/800000 keys, where unbalanced first attempts are frequent), and one build per key type that implements ToSig (22 types); every supplied pair is verified through get (and get_unaligned where admissible), and a second configuration must give a function that also verifies. Exploration level.",
         "Thread schedules of the parallel solver are not controlled (varied only through the thread count); termination is decided by a deterministic bound on source rewinds (generous where attempts are cheap), a wall-clock watchdog only yields 'inconclusive'; a worker whose threads are all blocked without consuming CPU for 12 s is a violation of class deadlock (state criterion, see DESIGN.md section 9)."),
 "C08": ("property testing of filter builds with a statistical oracle for the false-positive rate (7-sigma binomial band, two-sided when the expectation is >= 50)",
         "Generated-input search over the same type table and configurations as C07 with hash widths b in {1,2,3,5,7,8,9,12,16,31,32,33,63,64}: every inserted key must be found by contains and Index, len/hash_bits checked, contains_unaligned where admissible, including the peeling-regimes segment of C07; non-members from a structurally disjoint family are probed (2*10^4 to 2*10^5 per filter) and the positive count must lie within N 2^-b +- (7 sigma + 4). Exploration level; the rate check decides 'grossly wrong vs plausible'.",
         "The rate is a statistical statement: the tolerance keeps the per-run false-alarm probability negligible while a rate off by a factor 2 for b<=12 is far outside."),
 "C09": ("round-trip and lookup property testing of rear-coded lists against the Vec<String> they were built from",
         "Generated-input search over block sizes, prefix-family string lists over six alphabets (multi-byte UTF-8 with characters sharing 1, 2 or 3 bytes, lengths around 127..130; enumerated rear lengths in the 3-, 4- and (thorough) 5-byte variable-byte regimes, up to 270 MB strings; enumerated lists whose consecutive strings share 2^16..2^22 bytes with a single descent, an ascent or a proper prefix after them), sorted/reversed/duplicated/unsorted order, push or extend; len, get, get_in_place, iter/lend/into_lender, iter_from/lend_from/into_iter_from at every start with exact hints, index_of/contains for present, absent, prefix, extension and in-between probes. Exploration level.",
         "Trusts the Vec<String> oracle; strings never contain NUL (documented precondition)."),
 "C10": ("differential property testing of bulk operations against element-wise loops, with a completely enumerated sub-domain for copy",
         "Generated-input search over six word types: copy vs element loop (plus the complete enumeration of u8/u16, all widths, 24-element vectors, every (from,to,len)), apply_in_place with a recording closure on fresh and spare-word vectors, reset variants, BitVec fill/flip/reset/count and parallel and atomic twins, try_chunks_mut views (read and write), get_unaligned vs get, the blanket impls for Vec<W>/Box<[W]>, the trait's default copy/apply_in_place/set run by a harness-defined implementor, the parallel variants on 12.8-64 Mbit vectors in rayon pools of 1/2/3/default threads and all-ones vectors of 2^33..2^34+2^32 bits. Exploration level with one exhaustively enumerated finite sub-domain.",
         "Width 0 is excluded for apply_in_place (defined through set(), undefined at width 0) and try_chunks_mut at width 0 is an open known finding."),
 "C11": ("generated-input search over sizes with mem_size as the observation: built structures plus a formula sweep through the public ShardEdge API at every n below 300000",
         "Rank9/RankSmall/Select9 overheads, Elias-Fano bits per element over (n,u) classes, exact word counts of plain vectors, built functions and filters on the 20-row type table, and num_vertices x num_shards of all six logics for every n < 300000 (thorough 2000000) and log-uniform n up to 10^12 at both extreme admissible maximum shards, all against the documented bounds with an additive slack of a few words/three segments per shard. Exploration level (the per-n sweep is complete below its limit).",
         "Bounds are read as 'documented fraction + additive constant'; MWHC logics are held to their own documented 1.23*1.01 n."),
 "C12": ("op-sequence fuzzing of an explicit menu of safe methods with whole-domain arguments; oracle = process outcome under instrumented builds (std ub_checks; AddressSanitizer in the thorough tier)",
         "Generated op sequences over BitVec/AtomicBitVec, BitFieldVec, every rank/select stack, Elias-Fano, rear-coded lists, functions/filters over 0, 1 and more keys queried with never-inserted keys, SliceSeq, Modulo2Equation::add / Modulo2System on generated systems, rank/select on vectors above 2^32 bits; arguments len, len+-1, 2^32, 2^63, usize::MAX, random. A worker death (ub_checks abort, ASan report, signal) is the violation; answers and unwinding panics are accepted. Exploration level.",
         "Only the listed menu is covered; reads inside an allocation but outside the logical slice that do not go through get_unchecked are invisible to both instruments."),
 "C13": ("schedule enumeration: the harness serialises writer threads at the sched_point() hook and enumerates (stateless DFS) or samples the interleavings of their atomic operations; invariants over the final state and swap linearisability by brute force",
         "For generated configurations (word type, width, 2-3 writers, 1-2 writes each to distinct indices around a word boundary, initial contents, orderings; bit-vector set/swap programs; concurrent Elias-Fano builder partitions) all interleavings are executed when the tree is small, otherwise thousands of random schedules; long histories (24-64 attacker writes, each read back) under starvation schedules; after join every element must hold its writer's value or its initial value, swap results must be explained by a sequential order, the concurrent builder must equal the sequential one byte for byte. Exploration of schedules; exhaustive per small configuration.",
         "Granularity = hooked atomic operations, sequentially consistent; weaker hardware orderings are out of reach. Real-thread stress is auxiliary."),
 "C14": ("metamorphic/differential property testing over dirty storage: reads must agree with a clean twin, writes are checked against a bit-exact backend snapshot",
         "Generated vectors placed by from_raw_parts over storage whose bits beyond len*width (last word and 0-3 extra words) are garbage; all read operations compared with the logical contents; after every mutator the whole backend must equal model bits inside the logical region and the original garbage outside; parallel bulk operations on 12.8-64 Mbit dirty backends with up to 400001 spare words in rayon pools of 1/2/3/default threads; push/pop/resize over dirty Vec backends. Exploration level.",
         "Trusts the bit-exact model of the backend layout (little-endian fields packed from bit 0)."),
 "C15": ("round-trip property testing through every loading path with a shared generic observation function",
         "Generated instances of ~60 serialisable types (functions and filters up to 600 keys and, enumerated, 100001..799999 keys: sharded instances) are serialised (serialize and serialize_with_schema must write the same bytes) and loaded back by deserialize_full, deserialize_eps, mmap, load_mem, load_mmap and load_full; the same observation function (hundreds of queries incl. out-of-range ones) runs on the original and on each loaded value and the answer vectors must be identical. Exploration level.",
         "SelectSmall/SelectZeroSmall do not implement Select/SelectZero for their zero-copy forms (a compile-time limitation, see DESIGN.md): their select queries are compared on the full-copy paths only."),
 "C16": ("validity-predicate property testing of the public ShardEdge API over generated (n, eps, max shard, signature) tuples",
         "For the six logics: n from boundary classes up to 10^12, eight eps values (down to 10^-9), key counts at the 2^32-vertex capacity, three admissible maximum shards, 64 signatures with extreme words and up to 16 change-point signatures (boundaries of the fixed-point inversion found by bisection on edge()); vertices distinct, in range, inside the shard slice, equal to the local edge plus shard base, sort keys in range, shard == high bits, determinism across calls, Copy and epsilon-serde. Exploration level.",
         "Capacity assertions are accepted only when c * max_shard * 1.03 >= 2^32 (c = 1.105, MWHC 1.23) or beyond the documented ranges (counted)."),
 "C17": ("fault enumeration: harness-owned rewindable lenders with fault plans, enumerated completely for small key sets, plus generated duplicate plans",
         "All (stream, pass, item) and rewind fault positions for 6 builder types x 8 small sizes, with and without a duplicate that forces three retry passes, plus random faults/duplicates up to 3000 keys and duplicates in 10^5-key sets, the crate's own line lenders over a Read+Seek source failing at an exact byte offset with one of seven io::ErrorKinds or at the k-th seek, and gzip/zstd key streams that end early; a reached fault must come back as the returned error, duplicates with check_dups must give an error within the attempt bound, anything else must be Ok and verify; Ok with a wrong pair is always a violation.",
         "Faults are injected at the lender interface (RewindableIoLender) and under the crate's lenders (Read+Seek), not inside the signature store's file I/O. Deadlocks are violations (state criterion)."),
 "C18": ("multiset-equality property testing of the signature store against a hash multiset, online and offline",
         "Generated multisets (skewed high bits, duplicates) x (bucket bits, max shard bits, shard bits) x two signature and four value types x online/offline; number of shards, shard_sizes, home shard of every pair and multiset equality for two borrowed iterations and the consuming one; enumerated stores with single buckets of 2^15..2^18 pairs one bucket file above 2 GiB, and stores with max shard bits 11..=20 (more than 2^16 shards, more than 2^16 shards per bucket). Exploration level.",
         "Offline stores are limited to 2^4 buckets per case; the 2 GiB case needs about 2.2 GB of temporary disk and 3 GB of memory."),
 "C19": ("differential property testing of both GF(2) solvers against an independent dense Gauss-Jordan oracle, with an exhaustively enumerated small sub-domain",
         "Generated systems over five word types in seven shapes (planted, contradictory, repeated, rank-deficient, 3-uniform, fuse-like, arbitrary) plus all 41371 systems with 3 variables, <=4 equations and 1-bit constants, enumerated systems with rows of 255..131072 variables and with 65537..68536 equations (variables of weight ~2^16); Ok iff solvable, solutions verified by the harness' evaluator and by check(); three further solver calls on one object must still satisfy the original equations. Exploration level with one exhaustive sub-domain.",
         "Trusts the harness' Gauss-Jordan oracle; the many-equation systems are solvable or contradictory by construction and run through the lazy solver only (the plain elimination is quadratic)."),
 "C20": ("history-based property testing of rewindable lenders: generated inputs and Next/Rewind histories against the harness' own line splitter",
         "Ten lender kinds (plain/zstd/gzip line lenders over cursors and files, small-buffer readers, FromIntoIterator) with optional take(m), inputs with CR/LF/CRLF corner cases, a leading BOM or '#', lines longer than the reader's buffer, single lines of 2^16..2^28 bytes (thorough 2^30) of ASCII or 3-byte characters in every line lender, zstd sources of 1-3 concatenated frames, zstd frames declaring 2^28..2^30-byte windows, gzip sources of 1-3 members, lines that are not valid UTF-8, histories with up to 7 rewinds; every item of every pass compared. Exploration level. One open known finding (Take) is excluded by construction and re-checked on every run.",
         "Compression in the harness uses the zstd/flate2 crates the library itself depends on."),
})

ALL = [json.loads(l)["id"] for l in open(os.path.join(V, "properties.jsonl"))]
checks = []
for pid in ALL:
    if pid not in CLAIMED:
        continue
    tech, text, note = CLAIMED[pid]
    checks.append({
        "property_id": pid,
        "quick_cmd": "./check %s --tier quick" % pid,
        "thorough_cmd": "./check %s --tier thorough" % pid,
        "evidence_file": "/verif/evidence/%s.json" % pid,
        "replay_cmd_template": "./check %s --replay {path}" % pid,
        "engine": "vcheck",
        "level_claimed": {"category": "exploration", "text": text, "design_ref": "DESIGN.md section 2, " + pid},
        "level_note": note,
        "technique": tech,
    })
m = {
 "version": 1,
 "setup_cmd": "./setup.sh",
 "hooks": {
  "guard": "--cfg vigna_sux_rs_verif",
  "enable": "harness/.cargo/config.toml passes rustflags --cfg vigna_sux_rs_verif (and -C target-cpu=native, as /repo/.cargo/config.toml does); sux is a path dependency on /repo, so every check rebuilds from /repo's working tree",
  "baseline_off_cmd": "cd /repo && cargo test --workspace --no-fail-fast --offline",
  "source_commits": ["e884b22", "2403130"],
  "add_only": True,
 },
 "engines": [
  {"name": "vcheck", "path": "/verif/harness", "serves_properties": [c["property_id"] for c in checks],
   "kind_free_text": "own property-based-testing engine (Rust): seeded byte-string cases decoded with arbitrary::Unstructured, parent/worker process isolation, failure classification (mismatch / panic / no-panic / abort / nonconv), byte-level shrinking, replay files; driven by ./check (python3)"},
 ],
 "checks": checks,
 "notes": "Genuine defects found were repaired in /repo by separate 'fix:' commits (listed under \"fixed\" in known_findings.json); three are recorded as open known findings. Exit codes of ./check: 0 held, 1 violation (VIOLATION line), 2 inconclusive (build failure, watchdog, OOM). VERIF_SEED / VERIF_TIER honoured. known_findings.json lists open findings (none suppress anything outside their exact predicate) and fixed ones.",
 "not_applicable": [{"property_id": p, "reason": "check not built yet in this revision of /verif (work in progress, see DESIGN.md section 2 for the planned check)"} for p in ALL if p not in CLAIMED],
}
json.dump(m, open(os.path.join(V, "MANIFEST.json"), "w"), indent=1)
print("claimed", len(checks), "not claimed", len(m["not_applicable"]))
