#!/bin/bash
# Runs registered checks against a seeded change, the official way:
#   git -C /repo apply <patch>; ./check ...; git -C /repo checkout -- .
# usage: seeded_eval.sh <seeded name> <tier> <prop> [<prop> ...]
# Appends one line per check to /verif/seeded/<name>/eval.log
set -u
name=$1; tier=$2; shift 2
d=/verif/seeded/$name
[ -f $d/patch.diff ] || { echo "no $d/patch.diff"; exit 2; }
if [ -n "$(git -C /repo status --porcelain --untracked-files=no)" ]; then echo "/repo is dirty"; exit 2; fi
git -C /repo apply $d/patch.diff || { echo "patch does not apply"; exit 2; }
trap 'git -C /repo checkout -- .' EXIT
for p in "$@"; do
  out=$(cd /verif && ./check $p --tier $tier 2>&1); code=$?
  first=$(echo "$out" | grep -A1 '^VIOLATION' | head -2 | tr '\n' ' ' | cut -c1-400)
  echo "$(date -u +%FT%TZ) head=$(git -C /repo rev-parse --short HEAD) check=$p tier=$tier exit=$code $first" | tee -a $d/eval.log
done
