#!/bin/bash
# Confirms a sub-agent's seeded change in a scratch worktree (never in /repo):
#   demo passes without the change, fails with it, and the pinned suite passes with it.
# usage: verify_seeded.sh <dir with patch.diff demo.rs meta.json> ...
# Results go to <dir>/confirm.json. The scratch worktree /tmp/vs-work is reused and removed at the end.
set -u
W=/tmp/vs-work
git -C /repo worktree remove --force $W 2>/dev/null
git -C /repo worktree add -q --detach $W HEAD || exit 2
cp /repo/Cargo.lock $W/
for d in "$@"; do
  name=$(basename $d)
  [ -f $d/patch.diff ] || continue
  cd $W && git checkout -q -- . && git clean -fdq -e target -e Cargo.lock
  cp $d/demo.rs $W/tests/seeded_demo.rs
  applies=true; git apply --check $d/patch.diff 2>/dev/null || applies=false
  cargo test --offline --test seeded_demo > $d/confirm_without.log 2>&1; without=$?
  with=-1; suite=-1; nfail=-1; npass=-1
  if $applies; then
    git apply $d/patch.diff
    cargo test --offline --test seeded_demo > $d/confirm_with.log 2>&1; with=$?
    rm -f $W/tests/seeded_demo.rs
    cargo test --workspace --no-fail-fast --offline > $d/confirm_suite.log 2>&1; suite=$?
    npass=$(grep -E "^test result: ok" $d/confirm_suite.log | sed -E 's/.* ([0-9]+) passed.*/\1/' | paste -sd+ | bc)
    nfail=$(grep -E "^test result:" $d/confirm_suite.log | sed -E 's/.* ([0-9]+) failed.*/\1/' | paste -sd+ | bc)
  fi
  head=$(git -C /repo rev-parse --short HEAD)
  echo "{\"name\":\"$name\",\"repo_head\":\"$head\",\"patch_applies\":$applies,\"demo_exit_without_change\":$without,\"demo_exit_with_change\":$with,\"suite_exit_with_change\":$suite,\"suite_passed\":${npass:-0},\"suite_failed\":${nfail:-0}}" > $d/confirm.json
  cat $d/confirm.json
done
cd / && git -C /repo worktree remove --force $W
