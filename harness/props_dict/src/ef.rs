//! Elias–Fano: sequence generator, builders and back-ends shared by C03/C04.

use engine::*;
use sux::bits::{BitFieldVec, BitVec};
use sux::dict::elias_fano::*;

#[derive(Debug, Clone, Hash)]
pub struct SeqDesc {
    pub values: Vec<usize>,
    pub u: usize,
    pub builder: u8,
    pub backend: u8,
    pub seed: u64,
}

pub type Low = BitFieldVec<usize, Box<[usize]>>;
pub type Hb = BitVec<Box<[usize]>>;

pub const N_BUILDERS: u8 = 4;
pub const N_BACKENDS: u8 = 9;

pub fn decode_seq(u: &mut Unstructured, cap: usize) -> SeqDesc {
    let n = match u.int_in_range(0u8..=9).unwrap_or(0) {
        0 => u.int_in_range(0usize..=3).unwrap_or(0),
        1..=4 => u.int_in_range(0usize..=64.min(cap)).unwrap_or(0),
        5 | 6 => u.int_in_range(0usize..=300.min(cap)).unwrap_or(0),
        _ => u.int_in_range(0usize..=cap).unwrap_or(0),
    };
    // gap regime for the whole sequence + per-element class
    let regime = u.int_in_range(0u8..=6).unwrap_or(0);
    let mut values = Vec::with_capacity(n);
    let mut cur: usize = match u.int_in_range(0u8..=3).unwrap_or(0) {
        0 | 1 => 0,
        2 => u.int_in_range(0usize..=1000).unwrap_or(0),
        _ => (u.arbitrary::<u64>().unwrap_or(0) >> u.int_in_range(1u32..=63).unwrap_or(1)) as usize,
    };
    let mut dup_run = 0usize;
    for i in 0..n {
        if i > 0 {
            let g: usize = if dup_run > 0 {
                dup_run -= 1;
                0
            } else {
                match (regime, u.int_in_range(0u8..=9).unwrap_or(0)) {
                    (0, _) => 0,               // all duplicates
                    (1, _) => 1,               // consecutive
                    (2, c) => (c as usize) % 3, // tiny
                    (3, 0) => {
                        // start a run of duplicates crossing word boundaries
                        dup_run = [1usize, 5, 63, 64, 65, 127, 128, 200][u.int_in_range(0usize..=7).unwrap_or(0)];
                        0
                    }
                    (3, c) => c as usize,
                    (4, c) => 1usize << (c as u32 * 3 % 40), // powers of two
                    (5, 0) => (u.arbitrary::<u64>().unwrap_or(0) >> 8) as usize, // huge
                    (5, c) => c as usize * 1000,
                    (_, 0) => 0,
                    (_, 1) => 1usize << u.int_in_range(0u32..=20).unwrap_or(0),
                    (_, _) => u.int_in_range(0usize..=5000).unwrap_or(0),
                }
            };
            cur = cur.saturating_add(g);
        }
        values.push(cur);
    }
    let last = values.last().copied().unwrap_or(0);
    let uu = match u.int_in_range(0u8..=9).unwrap_or(0) {
        0..=2 => last,
        3 => last.saturating_add(1),
        4 => {
            let j = u.int_in_range(0u32..=20).unwrap_or(0);
            last.max(1).saturating_mul(1 << j).saturating_sub(1).max(last)
        }
        5 => last.saturating_add((u.arbitrary::<u64>().unwrap_or(0) >> u.int_in_range(0u32..=63).unwrap_or(0)) as usize),
        6 => usize::MAX,
        7 => usize::MAX - u.int_in_range(0usize..=1023).unwrap_or(0),
        8 => {
            // u/n within a hair of a power of two
            let k = u.int_in_range(0u32..=40).unwrap_or(0);
            let base = n.max(1).saturating_mul(1 << k);
            let d = u.int_in_range(0usize..=2).unwrap_or(1);
            (base + d).saturating_sub(1).max(last)
        }
        _ => last.saturating_add(u.int_in_range(0usize..=100_000).unwrap_or(0)),
    };
    SeqDesc {
        values,
        u: uu.max(last),
        builder: u.int_in_range(0u8..=N_BUILDERS - 1).unwrap_or(0),
        backend: u.int_in_range(0u8..=N_BACKENDS - 1).unwrap_or(0),
        seed: u.arbitrary().unwrap_or(0),
    }
}

/// Long skewed sequences: 4096*a dense values followed by a sparse tail, with
/// `u` chosen so that the last inventory entry of the selector on the upper
/// bits spans 2^k - 1, 2^k or 2^k + 1 bits (k in 16..=21): the regimes of the
/// 16/32/64-bit subinventories, which uniform sequences never reach.
pub fn skewed_seq(j: u64) -> SeqDesc {
    let k = 16 + (j % 6) as u32;
    let delta: i64 = [0, -1, 1][(j / 6) as usize % 3];
    // the sparse tail holds 33..8192 values: 4096 and 8192 make n an exact multiple of the selector's inventory size
    let t = [1000usize, 4096, 33, 4095, 8192, 64][(j / 18) as usize % 6];
    let a = (1usize << (k - 13)) + (1usize << (k - 15)) + (j / 72) as usize % 3;
    let n = 4096 * a + t;
    let dense = 1500 * a;
    let u = ((1i64 << k) + delta - 1 - t as i64 + dense as i64) as usize;
    let mut values = Vec::with_capacity(n);
    for i in 0..4096 * a {
        values.push(i * dense / (4096 * a));
    }
    for i in 0..t {
        values.push(dense + i * (u - dense) / t);
    }
    // 5 and 9 are coprime: every run of 9 consecutive j meets every back-end, whatever the other digits of j select
    SeqDesc { values, u, builder: ((j / 3) % N_BUILDERS as u64) as u8, backend: ((j * 5 + j / 54) % N_BACKENDS as u64) as u8, seed: j }
}

fn sm(x: &mut u64) -> u64 {
    *x = x.wrapping_add(0x9E37_79B9_7F4A_7C15);
    let mut z = *x;
    z = (z ^ (z >> 30)).wrapping_mul(0xBF58_476D_1CE4_E5B9);
    z = (z ^ (z >> 27)).wrapping_mul(0x94D0_49BB_1331_11EB);
    z ^ (z >> 31)
}

/// Builds the plain structure through the described builder, checking that
/// illegal pushes are rejected (and leave the builder usable).
pub fn build_plain(cx: &mut Ctx, d: &SeqDesc) -> R<EliasFano> {
    let n = d.values.len();
    let mut s = d.seed;
    match d.builder {
        0 | 1 => {
            cx.label(if d.builder == 0 { "builder:push" } else { "builder:extend" });
            let mut b = cx.must("EliasFanoBuilder::new", || EliasFanoBuilder::new(n, d.u))?;
            // where to try illegal pushes
            let bad_at = if n == 0 { 0 } else { (sm(&mut s) as usize) % (n + 1) };
            let mut i = 0;
            loop {
                if i == bad_at && i < n {
                    // a value above u
                    if d.u < usize::MAX {
                        let v = if sm(&mut s) % 2 == 0 { d.u + 1 } else { usize::MAX };
                        cx.must_panic("push(> u)", || b.push(v))?;
                        cx.label("rejected:>u");
                    }
                    // a value below the last one
                    if i > 0 && d.values[i - 1] > 0 {
                        let v = if sm(&mut s) % 2 == 0 { d.values[i - 1] - 1 } else { sm(&mut s) as usize % d.values[i - 1] };
                        cx.must_panic("push(< last)", || b.push(v))?;
                        cx.label("rejected:<last");
                    }
                }
                if i == n {
                    // one value too many
                    let v = d.values.last().copied().unwrap_or(0);
                    cx.must_panic("push(n+1-th)", || b.push(v))?;
                    cx.label("rejected:too_many");
                    break;
                }
                if d.builder == 0 {
                    // some values go through the public unsafe push_unchecked
                    // (contract respected: monotone, <= u, at most n values);
                    // the checked pushes around them must still reject
                    if d.seed % 3 == 0 && sm(&mut s) % 3 == 0 {
                        cx.label("mixed_push_unchecked");
                        cx.must("push_unchecked", || unsafe { b.push_unchecked(d.values[i]) })?;
                    } else {
                        cx.must("push", || b.push(d.values[i]))?;
                    }
                    i += 1;
                } else {
                    // extend with a chunk that stops at the next probe point
                    let k = 1 + (sm(&mut s) as usize % 7);
                    let limit = if i < bad_at { bad_at.min(n) } else { n };
                    let stop = (i + k).min(limit).max(i + 1);
                    cx.must("extend", || b.extend(d.values[i..stop].iter().copied()))?;
                    i = stop;
                }
            }
            cx.must("build", || b.build())
        }
        2 => {
            cx.label("builder:from_slice");
            // From<slice> sets u to the maximum
            let r: EliasFano = cx.must("From<slice>", || EliasFano::from(&d.values))?;
            if n >= 2 && d.values[n - 1] > d.values[0] {
                // a non-monotone slice must be rejected
                let mut bad = d.values.clone();
                bad.swap(0, n - 1);
                cx.must_panic("From<non-monotone slice>", || EliasFano::from(&bad))?;
                cx.label("rejected:non_monotone_slice");
            }
            Ok(r)
        }
        _ => {
            cx.label("builder:concurrent");
            let b = cx.must("EliasFanoConcurrentBuilder::new", || EliasFanoConcurrentBuilder::new(n, d.u))?;
            // single-threaded, random index order
            let mut order: Vec<usize> = (0..n).collect();
            for i in (1..n).rev() {
                let j = sm(&mut s) as usize % (i + 1);
                order.swap(i, j);
            }
            cx.must("concurrent set", || {
                for &i in &order {
                    unsafe { b.set(i, d.values[i]) };
                }
            })?;
            cx.must("build", || b.build())
        }
    }
}

/// The effective universe bound (From<slice> uses the maximum).
pub fn effective_u(d: &SeqDesc) -> usize {
    if d.builder == 2 {
        d.values.last().copied().unwrap_or(0)
    } else {
        d.u
    }
}

pub fn labels(cx: &mut Ctx, d: &SeqDesc) {
    let n = d.values.len();
    let u = effective_u(d);
    let last = d.values.last().copied().unwrap_or(0);
    cx.label_if(n == 0 && u > 0, "n=0&u>0");
    cx.label_if(n == 0 && u == 0, "n=0&u=0");
    cx.label_if(n == 1, "n=1");
    cx.label_if(n > 0 && last == u, "last=u");
    cx.label_if(u >= 1 << 63, "u>=2^63");
    cx.label_if(u == usize::MAX, "u=MAX");
    cx.label_if(n > 0 && d.values[0] == 0, "first=0");
    let mut run = 1;
    let mut maxrun = 1;
    for w in d.values.windows(2) {
        if w[0] == w[1] {
            run += 1;
            maxrun = maxrun.max(run);
        } else {
            run = 1;
        }
    }
    cx.label_if(n >= 2 && maxrun >= 2, "dup");
    cx.label_if(maxrun >= 64, "dup_run>=64");
    cx.label_if(n > 0 && u >= n && u / n >= 2, "l>0");
    cx.label_if(n > 0 && u / n.max(1) < 2, "l=0");
    if n > 0 && u >= n {
        let q = u / n;
        cx.label_if(q.is_power_of_two() || q.wrapping_add(1).is_power_of_two(), "u/n~2^k");
    }
}

/// Runs `$body` with `$ef` bound to the structure over the selected back-end
/// supporting `select` (C03).
#[macro_export]
macro_rules! with_seq_backend {
    ($cx:ident, $d:ident, $plain:ident, |$ef:ident| $body:expr) => {{
        use sux::rank_sel::*;
        use sux::traits::AddNumBits;
        let p = &$d;
        match p.backend {
            0 => {
                $cx.label("backend:EfSeq");
                let $ef = $cx.must("map_high_bits(SelectAdaptConst<12,3>)", || unsafe { $plain.map_high_bits(SelectAdaptConst::<_, _, 12, 3>::new) })?;
                $body
            }
            1 => {
                $cx.label("backend:EfSeqDict");
                let $ef = $cx.must("map_high_bits(EfSeqDict)", || unsafe { $plain.map_high_bits(SelectAdaptConst::<_, _, 12, 3>::new).map_high_bits(SelectZeroAdaptConst::<_, _, 12, 3>::new) })?;
                $body
            }
            2 => {
                $cx.label("backend:SelectAdapt");
                let m = (p.seed % 5) as usize;
                let $ef = $cx.must("map_high_bits(SelectAdapt)", || unsafe { $plain.map_high_bits(|h| SelectAdapt::new(h, m)) })?;
                $body
            }
            3 => {
                $cx.label("backend:SelectAdaptConst<small>");
                let $ef = $cx.must("map_high_bits(SelectAdaptConst<3,1>)", || unsafe { $plain.map_high_bits(SelectAdaptConst::<_, Box<[usize]>, 3, 1>::new) })?;
                $body
            }
            4 => {
                $cx.label("backend:Select9");
                let $ef = $cx.must("map_high_bits(Select9)", || unsafe { $plain.map_high_bits(|h| Select9::new(Rank9::new(h))) })?;
                $body
            }
            5 => {
                $cx.label("backend:SelectSmall1");
                let $ef = $cx.must("map_high_bits(SelectSmall<1,9>)", || unsafe { $plain.map_high_bits(|h| SelectSmall::<1, 9, _>::new(RankSmall::<1, 9, _>::new(h))) })?;
                $body
            }
            6 => {
                $cx.label("backend:SelectSmall4");
                let $ef = $cx.must("map_high_bits(SelectSmall<3,13>)", || unsafe { $plain.map_high_bits(|h| SelectSmall::<3, 13, _>::new(RankSmall::<3, 13, _>::new(h))) })?;
                $body
            }
            7 => {
                $cx.label("backend:SelectAdapt::with_inv");
                let k = (p.seed % 9) as usize;
                let $ef = $cx.must("map_high_bits(SelectAdapt::with_inv)", || unsafe { $plain.map_high_bits(|h| SelectAdapt::with_inv(AddNumBits::from(h), k, 1)) })?;
                $body
            }
            _ => {
                $cx.label("backend:SelectSmall0");
                let $ef = $cx.must("map_high_bits(SelectSmall<2,9>)", || unsafe { $plain.map_high_bits(|h| SelectSmall::<2, 9, _>::new(RankSmall::<2, 9, _>::new(h))) })?;
                $body
            }
        }
    }};
}

/// Same, for back-ends supporting both `select` and `select_zero` (C04).
#[macro_export]
macro_rules! with_dict_backend {
    ($cx:ident, $d:ident, $plain:ident, |$ef:ident| $body:expr) => {{
        use sux::rank_sel::*;
        let p = &$d;
        match p.backend % 6 {
            0 | 1 => {
                $cx.label("backend:EfSeqDict");
                let $ef = $cx.must("map_high_bits(EfSeqDict)", || unsafe { $plain.map_high_bits(SelectAdaptConst::<_, _, 12, 3>::new).map_high_bits(SelectZeroAdaptConst::<_, _, 12, 3>::new) })?;
                $body
            }
            2 => {
                $cx.label("backend:SelectZeroAdapt<SelectAdapt>");
                let m = (p.seed % 5) as usize;
                let $ef = $cx.must("map_high_bits(SelectZeroAdapt<SelectAdapt>)", || unsafe { $plain.map_high_bits(|h| SelectZeroAdapt::new(SelectAdapt::new(h, m), m)) })?;
                $body
            }
            3 => {
                $cx.label("backend:SelectZeroAdaptConst<SelectAdaptConst> small");
                let $ef = $cx.must("map_high_bits(small consts)", || unsafe { $plain.map_high_bits(SelectAdaptConst::<_, Box<[usize]>, 3, 1>::new).map_high_bits(SelectZeroAdaptConst::<_, Box<[usize]>, 2, 0>::new) })?;
                $body
            }
            4 => {
                $cx.label("backend:SelectZeroAdapt<Select9>");
                let $ef = $cx.must("map_high_bits(SelectZeroAdapt<Select9>)", || unsafe { $plain.map_high_bits(|h| SelectZeroAdapt::new(Select9::new(Rank9::new(h)), 2)) })?;
                $body
            }
            _ => {
                $cx.label("backend:SelectZeroSmall<SelectSmall>");
                let $ef = $cx.must("map_high_bits(SelectZeroSmall<SelectSmall>)", || unsafe { $plain.map_high_bits(|h| SelectZeroSmall::<1, 10, _>::new(SelectSmall::<1, 10, _>::new(RankSmall::<1, 10, _>::new(h)))) })?;
                $body
            }
        }
    }};
}
