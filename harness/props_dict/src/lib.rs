use engine::Property;
pub fn properties() -> Vec<Box<dyn Property>> {
    vec![]
}
