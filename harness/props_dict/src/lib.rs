use engine::Property;
pub mod c03;
pub mod c04;
pub mod c09;
pub mod ef;

pub fn properties() -> Vec<Box<dyn Property>> {
    vec![Box::new(c03::C03), Box::new(c04::C04), Box::new(c09::C09)]
}
