//! C03 — Elias–Fano returns exactly the monotone sequence it was built from.

use crate::ef::*;
use crate::with_seq_backend;
use engine::*;
use sux::dict::elias_fano::EliasFano;
use sux::traits::{IndexedSeq, IntoIteratorFrom, SelectUnchecked};

pub struct C03;

fn check_seq<H: AsRef<[usize]> + SelectUnchecked>(cx: &mut Ctx, ef: &EliasFano<H, Low>, d: &SeqDesc) -> R {
    let v = &d.values;
    let n = v.len();
    let l = cx.must("len", || IndexedSeq::len(ef))?;
    cx.check_eq(l, n, "len", || "IndexedSeq::len()".into())?;
    let l = cx.must("len", || ef.len())?;
    cx.check_eq(l, n, "len", || "len()".into())?;
    let step = if n <= 600 { 1 } else { n / 300 };
    let mut i = 0;
    while i < n {
        let g = cx.must("get", || ef.get(i))?;
        cx.check_eq(g, v[i], "get", || format!("get({i}) of n={n} u={}", effective_u(d)))?;
        i += step;
    }
    if n > 0 {
        let g = cx.must("get", || ef.get(n - 1))?;
        cx.check_eq(g, v[n - 1], "get", || format!("get(n-1) of n={n}"))?;
    }
    // iter(): every element with exact hints
    let mut it = cx.must("iter", || ef.iter())?;
    for (i, x) in v.iter().enumerate() {
        if i % 64 == 0 || n - i < 3 {
            let l = cx.must("iter.len", || it.len())?;
            cx.check_eq(l, n - i, "iter.len", || format!("iter().len() before item {i}"))?;
            let h = cx.must("iter.size_hint", || it.size_hint())?;
            cx.check_eq(h, (n - i, Some(n - i)), "iter.size_hint", || format!("iter().size_hint() before item {i}"))?;
        }
        let g = cx.must("iter.next", || it.next())?;
        cx.check_eq(g, Some(*x), "iter", || format!("iter() item {i} of n={n}"))?;
    }
    let g = cx.must("iter.next", || it.next())?;
    cx.check_eq(g, None, "iter.end", || "iter() past the end".into())?;
    let l = cx.must("iter.len", || it.len())?;
    cx.check_eq(l, 0, "iter.len", || "iter().len() at the end".into())?;
    let via_into: Vec<usize> = cx.must("into_iter", || ef.into_iter().collect())?;
    cx.check(via_into == *v, "into_iter", || "(&ef).into_iter() differs".into())?;
    // iter_from(k) / into_iter_from(k) for every start (sampled when long)
    let mut starts: Vec<usize> = if n <= 128 { (0..=n).collect() } else { (0..=n).step_by(n / 60).collect() };
    starts.extend([0, n.saturating_sub(1), n]);
    let mut s = d.seed;
    for k in starts {
        let full = n - k <= 200;
        let take = if full { n - k } else { 70 };
        let mut it = cx.must("iter_from", || ef.iter_from(k))?;
        let l = cx.must("iter_from.len", || it.len())?;
        cx.check_eq(l, n - k, "iter_from.len", || format!("iter_from({k}).len() with n={n}"))?;
        for j in 0..take {
            let g = cx.must("iter_from.next", || it.next())?;
            cx.check_eq(g, Some(v[k + j]), "iter_from", || format!("iter_from({k}) item {j} with n={n}"))?;
        }
        if full {
            let g = cx.must("iter_from.next", || it.next())?;
            cx.check_eq(g, None, "iter_from.end", || format!("iter_from({k}) past the end with n={n}"))?;
        }
        let h = cx.must("iter_from.size_hint", || it.size_hint())?;
        cx.check_eq(h, (n - k - take, Some(n - k - take)), "iter_from.size_hint", || format!("iter_from({k}).size_hint() after {take} items"))?;
        s = s.wrapping_mul(6364136223846793005).wrapping_add(1);
        if s >> 62 == 0 || k == n {
            let got: Vec<usize> = cx.must("into_iter_from", || ef.into_iter_from(k).take(take + 1).collect())?;
            cx.check(got[..] == v[k..(k + take + 1).min(n)], "into_iter_from", || format!("into_iter_from({k}) differs with n={n}"))?;
        }
    }
    // the rest of the Iterator protocol (nth, skip, step_by, count, last, ...) against the input's iterator
    if n <= 20_000 {
        let it = cx.must("iter", || ef.iter())?;
        iter_protocol(cx, "iter", it, v, d.seed ^ n as u64)?;
        let k = (d.seed >> 17) as usize % (n + 1);
        let it = cx.must("iter_from", || ef.iter_from(k))?;
        iter_protocol(cx, "iter_from", it, &v[k..], d.seed.rotate_left(21) ^ k as u64)?;
        let it = cx.must("into_iter_from", || ef.into_iter_from(k))?;
        iter_protocol(cx, "into_iter_from", it, &v[k..], d.seed.rotate_left(43) ^ k as u64)?;
    }
    // start positions beyond n must be rejected
    cx.must_panic("iter_from(n+1)", || ef.iter_from(n + 1))?;
    cx.must_panic("get(n)", || ef.get(n))?;
    Ok(())
}

impl Property for C03 {
    fn id(&self) -> &'static str {
        "C03"
    }
    fn plan(&self, tier: Tier) -> Vec<Segment> {
        vec![Segment::random("short", tier.pick(360_000, 6_400_000), &[0], 8, 400), Segment::random("long", tier.pick(36_000, 800_000), &[1], 8, 2000), Segment::enumerated("skewed-long", tier.pick(54, 324), &[2])]
    }
    fn rule(&self) -> &'static str {
        "case = (n, gap list with duplicate runs / powers of two / huge gaps, first element, u in {last, last+1, last*2^j-1, >= last, usize::MAX-k, n*2^k+-1}, builder in {push, extend, From<slice>, concurrent set in random order}, one of 9 selection back-ends) decoded from bytes, plus an enumerated segment of long skewed sequences (4096a dense values and a sparse tail whose inventory entry in the upper-bits selector spans 2^k-1, 2^k, 2^k+1 bits, k=16..21; 70000..1.7 million values); oracle = the input vector; observed len, get, iter, into_iter, iter_from/into_iter_from at every start (sampled above 128) with ExactSizeIterator::len/size_hint; illegal pushes (out of order, above u, n+1-th, non-monotone slice) must panic and leave the builder usable. Every iterator is also driven through a generated script of next/nth/size_hint steps and one consuming adaptor (count, last, collect, step_by, skip, fold) in lock-step with the model's iterator. Non-trivial: n>=2 with at least one non-zero gap, or labels n=0&u>0, n=1, last=u, dup_run>=64, u>=2^63, u/n~2^k; distinct = distinct hash of the decoded case."
    }
    fn run(&self, data: &[u8], cx: &mut Ctx) -> R {
        let (mode, rest) = data.split_first().unwrap_or((&0, &[]));
        let cap = if *mode == 1 { cx.tier.pick(6000, 100_000) } else { 200 };
        let mut u = Unstructured::new(rest);
        let d = if *mode == 2 {
            let mut b = [0u8; 8];
            b[..rest.len().min(8)].copy_from_slice(&rest[..rest.len().min(8)]);
            cx.label("skewed_long");
            skewed_seq(u64::from_le_bytes(b))
        } else {
            decode_seq(&mut u, cap)
        };
        cx.hash(&d);
        cx.describe(|| {
            let v = &d.values;
            format!("n={} u={} builder={} backend={} seed={} values={:?}{}", v.len(), d.u, d.builder, d.backend, d.seed, &v[..v.len().min(40)], if v.len() > 40 { "…" } else { "" })
        });
        labels(cx, &d);
        let n = d.values.len();
        cx.nontrivial_if((n >= 2 && d.values[0] != d.values[n - 1]) || ["n=0&u>0", "n=1", "last=u", "dup_run>=64", "u>=2^63", "u/n~2^k"].iter().any(|l| cx.has_label(l)));
        let plain = build_plain(cx, &d)?;
        with_seq_backend!(cx, d, plain, |ef| check_seq(cx, &ef, &d))
    }
}
