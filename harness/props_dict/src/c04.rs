//! C04 — Elias–Fano index_of/succ/pred agree with their order-theoretic definitions.

use crate::ef::*;
use crate::with_dict_backend;
use engine::*;
use sux::dict::elias_fano::EliasFano;
use sux::traits::{IndexedDict, Pred, SelectUnchecked, SelectZeroUnchecked, Succ};

pub struct C04;

fn queries(d: &SeqDesc, l: u32) -> Vec<usize> {
    let v = &d.values;
    let n = v.len();
    let u = effective_u(d);
    let mut q: Vec<usize> = vec![0, 1, u.saturating_sub(1), u, u.saturating_add(1), u.saturating_add(2), 1 << 63, (1 << 63) - 1, usize::MAX, usize::MAX - 1, u / 2, u.saturating_mul(2), u.saturating_add(1 << l), u.saturating_add(64 << l)];
    let mut s = d.seed ^ 0x1234;
    let mut rnd = || {
        s = s.wrapping_add(0x9E37_79B9_7F4A_7C15);
        let mut z = s;
        z = (z ^ (z >> 30)).wrapping_mul(0xBF58_476D_1CE4_E5B9);
        z = (z ^ (z >> 27)).wrapping_mul(0x94D0_49BB_1331_11EB);
        (z ^ (z >> 31)) as usize
    };
    let step = if n <= 40 { 1 } else { n / 40 };
    let mut i = 0;
    while i < n {
        let x = v[i];
        q.extend([x, x.saturating_sub(1), x.saturating_add(1)]);
        if i + 1 < n {
            q.push(x + (v[i + 1] - x) / 2);
        }
        // bucket edges
        q.push((x >> l) << l);
        q.push(((x >> l) << l).saturating_sub(1));
        q.push((((x >> l) + 1) << l).saturating_sub(1));
        i += step;
    }
    if n > 0 {
        q.extend([v[0], v[0].saturating_sub(1), v[n - 1], v[n - 1].saturating_add(1)]);
    }
    for _ in 0..12 {
        q.push(rnd() % u.max(1));
        q.push(rnd() >> (rnd() % 64));
    }
    q
}

fn check_dict<H: AsRef<[usize]> + SelectUnchecked + SelectZeroUnchecked>(cx: &mut Ctx, ef: &EliasFano<H, Low>, d: &SeqDesc) -> R {
    let v = &d.values;
    let n = v.len();
    let u = effective_u(d);
    let l = if n > 0 && u >= n { (u / n).ilog2() } else { 0 };
    let mut absent_interior = false;
    for q in queries(d, l) {
        let lo = v.partition_point(|x| *x < q); // first index with x >= q
        let hi = v.partition_point(|x| *x <= q); // first index with x > q
        let present = lo < hi;
        cx.label_if(q > u, "q>u");
        cx.label_if(q == u, "q=u");
        absent_interior |= !present && lo > 0 && lo < n;
        // index_of / contains
        let io = cx.must("index_of", || ef.index_of(q))?;
        match io {
            Some(i) => cx.check(i < n && v[i] == q, "index_of", || format!("index_of({q}) = Some({i}) but that index holds {:?} (present: {present}) n={n} u={u}", v.get(i)))?,
            None => cx.check(!present, "index_of", || format!("index_of({q}) = None but the value occurs at index {lo} (n={n} u={u})"))?,
        }
        let c = cx.must("contains", || ef.contains(q))?;
        cx.check_eq(c, present, "contains", || format!("contains({q}) n={n} u={u}"))?;
        // succ: least element >= q
        let want = v.get(lo).copied();
        let got = cx.must("succ", || ef.succ(q))?;
        check_pair(cx, "succ", q, got, want, v, u)?;
        // succ_strict: least element > q
        let want = v.get(hi).copied();
        let got = cx.must("succ_strict", || ef.succ_strict(q))?;
        check_pair(cx, "succ_strict", q, got, want, v, u)?;
        // pred: greatest element <= q
        let want = if hi > 0 { Some(v[hi - 1]) } else { None };
        let got = cx.must("pred", || ef.pred(q))?;
        check_pair(cx, "pred", q, got, want, v, u)?;
        // pred_strict: greatest element < q
        let want = if lo > 0 { Some(v[lo - 1]) } else { None };
        let got = cx.must("pred_strict", || ef.pred_strict(q))?;
        check_pair(cx, "pred_strict", q, got, want, v, u)?;
        // generic callers holding a reference must get the same answers
        let direct = (cx.must("index_of", || ef.index_of(q))?, present, cx.must("succ", || ef.succ(q))?, cx.must("succ_strict", || ef.succ_strict(q))?, cx.must("pred", || ef.pred(q))?, got);
        let fw = cx.must("via &T", || via_forwarding(ef, q))?;
        cx.check(fw == direct, "forwarding", || format!("answers through the `&T` implementations of IndexedDict/Succ/Pred differ from direct calls for q={q}: {fw:?} vs {direct:?} (n={n} u={u})"))?;
        let fw2 = cx.must("via &&T", || via_forwarding(&ef, q))?;
        cx.check(fw2 == direct, "forwarding", || format!("answers through `&&T` differ from direct calls for q={q}: {fw2:?} vs {direct:?}"))?;
    }
    cx.nontrivial_if((n >= 2 && absent_interior) || ["q>u", "q=u", "n=0&u>0", "n=0&u=0", "n=1", "dup"].iter().any(|l| cx.has_label(l)));
    Ok(())
}

/// The same queries through the forwarding implementations of the traits
/// (`&T`, and `Box<T>` where the traits provide one): generic code receiving
/// the dictionary as `D: Succ + Pred + IndexedDict`.
fn via_forwarding<D>(d: D, q: usize) -> (Option<usize>, bool, Option<(usize, usize)>, Option<(usize, usize)>, Option<(usize, usize)>, Option<(usize, usize)>)
where
    D: IndexedDict<Input = usize, Output = usize> + Succ<Input = usize, Output = usize> + Pred<Input = usize, Output = usize>,
{
    (d.index_of(q), d.contains(q), d.succ(q), d.succ_strict(q), d.pred(q), d.pred_strict(q))
}

fn check_pair(cx: &mut Ctx, what: &str, q: usize, got: Option<(usize, usize)>, want: Option<usize>, v: &[usize], u: usize) -> R {
    match (got, want) {
        (None, None) => Ok(()),
        (Some((i, x)), Some(w)) => cx.check(x == w && i < v.len() && v[i] == x, what, || format!("{what}({q}) = Some(({i}, {x})), expected value {w} at an index holding it (index holds {:?}); n={} u={u}", v.get(i), v.len())),
        (g, w) => Err(Fail::mismatch(what, format!("{what}: {what}({q}) = {g:?}, expected value {w:?}; n={} u={u}", v.len()))),
    }
}

impl Property for C04 {
    fn id(&self) -> &'static str {
        "C04"
    }
    fn plan(&self, tier: Tier) -> Vec<Segment> {
        vec![Segment::random("short", tier.pick(180_000, 3_200_000), &[0], 8, 400), Segment::random("long", tier.pick(15_000, 320_000), &[1], 8, 2000), Segment::enumerated("skewed-long", tier.pick(54, 324), &[2])]
    }
    fn rule(&self) -> &'static str {
        "case = (monotone sequence as in C03, u, builder, one of 5 select+select_zero back-ends) decoded from bytes; queries = 0, 1, every x_i (sampled above 40) and x_i+-1, midpoints, bucket edges (q>>l)<<l, u-1, u, u+1, u+2^l, 2u, 2^63, usize::MAX and random values; oracle = partition_point on the sorted input, any index holding the returned value is accepted; observed index_of, contains, succ, succ_strict, pred, pred_strict. Non-trivial: n>=2 and some query is an absent interior value, or labels q>u, q=u, n=0, n=1, dup; distinct = distinct hash of the decoded case."
    }
    fn run(&self, data: &[u8], cx: &mut Ctx) -> R {
        let (mode, rest) = data.split_first().unwrap_or((&0, &[]));
        let cap = if *mode == 1 { cx.tier.pick(4000, 60_000) } else { 150 };
        let mut u = Unstructured::new(rest);
        let d = if *mode == 2 {
            let mut b = [0u8; 8];
            b[..rest.len().min(8)].copy_from_slice(&rest[..rest.len().min(8)]);
            cx.label("skewed_long");
            skewed_seq(u64::from_le_bytes(b))
        } else {
            decode_seq(&mut u, cap)
        };
        cx.hash(&d);
        cx.describe(|| {
            let v = &d.values;
            format!("n={} u={} builder={} backend={} seed={} values={:?}{}", v.len(), d.u, d.builder, d.backend % 6, d.seed, &v[..v.len().min(40)], if v.len() > 40 { "…" } else { "" })
        });
        labels(cx, &d);
        let plain = build_plain(cx, &d)?;
        with_dict_backend!(cx, d, plain, |ef| check_dict(cx, &ef, &d))
    }
}
