//! C09 — a rear-coded list returns exactly the strings pushed and finds them by value.

use engine::*;
use lender::{ExactSizeLender, IntoLender, Lender};
use sux::dict::{RearCodedList, RearCodedListBuilder};
use sux::traits::{IndexedDict, IndexedSeq, IntoIteratorFrom};

pub struct C09;

#[derive(Debug, Clone, Hash)]
struct Case {
    k: usize,
    strings: Vec<String>,
    order: u8,
    via_extend: bool,
    seed: u64,
}

fn alphabet_char(u: &mut Unstructured, alpha: u8) -> char {
    match alpha {
        0 => ['a', 'b'][u.int_in_range(0usize..=1).unwrap_or(0)],
        1 => (u.int_in_range(0x20u8..=0x7e).unwrap_or(b'a')) as char,
        // every multi-byte alphabet holds characters that share all bytes but the last one, the first byte
        // only, or nothing: common prefixes then end one, two or three bytes into a character
        2 => ['é', 'ß', 'a', 'ö', 'z', '\u{7f}', '\u{80}', '\u{7ff}', 'è', '\u{81}'][u.int_in_range(0usize..=9).unwrap_or(0)],
        3 => ['€', '\u{800}', '\u{ffff}', 'a', '中', '\u{1}', '₭', '\u{801}', '丮', '\u{2000}'][u.int_in_range(0usize..=9).unwrap_or(0)],
        4 => ['😀', '\u{10000}', '\u{10ffff}', 'b', '\u{1}', '\u{f4}', '😁', '\u{10001}', '\u{1f640}', '\u{1d400}', '\u{10fffe}', '\u{11000}'][u.int_in_range(0usize..=11).unwrap_or(0)],
        _ => char::from_u32(u.int_in_range(1u32..=0x2ff).unwrap_or(b'a' as u32)).unwrap_or('a'),
    }
}

fn gen_string(u: &mut Unstructured, alpha: u8, maxlen: usize) -> String {
    let len = match u.int_in_range(0u8..=9).unwrap_or(0) {
        0 => 0,
        1 => 1,
        2 => u.int_in_range(0usize..=4).unwrap_or(0),
        3 => [127usize, 128, 129, 126, 130][u.int_in_range(0usize..=4).unwrap_or(0)].min(maxlen),
        _ => u.int_in_range(0usize..=maxlen.min(24)).unwrap_or(0),
    };
    let mode = u.int_in_range(0u8..=2).unwrap_or(0);
    let c0 = alphabet_char(u, alpha);
    (0..len)
        .map(|_| match mode {
            0 => c0,
            _ => alphabet_char(u, alpha),
        })
        .collect()
}

fn decode(u: &mut Unstructured, tier: Tier, big: bool) -> Case {
    let n = match u.int_in_range(0u8..=9).unwrap_or(0) {
        0 => u.int_in_range(0usize..=3).unwrap_or(0),
        1..=6 => u.int_in_range(0usize..=40).unwrap_or(0),
        _ => u.int_in_range(0usize..=if big { 400 } else { 120 }).unwrap_or(0),
    };
    let k = match u.int_in_range(0u8..=9).unwrap_or(0) {
        0 => 1,
        1 => 2,
        2 => 3,
        3 => 4,
        4 => 8,
        5 => 16,
        6 => n.max(1),
        7 => n + 1,
        8 => n.saturating_sub(1).max(1),
        _ => u.int_in_range(1usize..=20).unwrap_or(1),
    };
    let alpha = u.int_in_range(0u8..=5).unwrap_or(0);
    // prefix families: a few bases, each string = base + suffix
    let nb = u.int_in_range(1usize..=4).unwrap_or(1);
    let long_family = big && tier == Tier::Thorough && u.int_in_range(0u8..=40).unwrap_or(1) == 0;
    let bases: Vec<String> = (0..nb).map(|_| gen_string(u, alpha, 300)).collect();
    let mut strings: Vec<String> = Vec::with_capacity(n);
    for i in 0..n {
        let b = &bases[u.int_in_range(0usize..=nb - 1).unwrap_or(0)];
        let cut = match u.int_in_range(0u8..=3).unwrap_or(0) {
            0 => b.len(),
            _ => {
                let mut c = u.int_in_range(0usize..=b.len()).unwrap_or(0);
                while !b.is_char_boundary(c) {
                    c -= 1;
                }
                c
            }
        };
        let mut s = b[..cut].to_string();
        if long_family && i % 7 == 3 {
            // non-shared suffixes of >= 16512 bytes: 3-byte rear lengths
            let c = alphabet_char(u, 0);
            s.extend(std::iter::repeat(c).take(16512 + (i % 5)));
        } else {
            s.push_str(&gen_string(u, alpha, 200));
        }
        strings.push(s);
    }
    let order = u.int_in_range(0u8..=5).unwrap_or(0);
    let seed: u64 = u.arbitrary().unwrap_or(0);
    match order {
        0..=2 => strings.sort(),
        3 => {
            strings.sort();
            strings.reverse();
        }
        4 => {
            // sorted with extra duplicates
            let m = strings.len();
            for i in 0..m {
                if (seed >> (i % 60)) & 1 == 1 {
                    let s = strings[i].clone();
                    strings.push(s);
                }
            }
            strings.sort();
        }
        _ => {} // as generated (mostly unsorted)
    }
    Case { k, strings, order, via_extend: u.arbitrary().unwrap_or(false), seed }
}

/// Lists whose rear lengths (length of the previous string minus the common
/// prefix) fall just around and well inside the 3- and 4-byte code regimes.
fn long_rear_case(j: u64) -> Case {
    const B3: usize = 128 + 128 * 128; // 16512
    const B4: usize = B3 + 128 * 128 * 128; // 2113664
    let mut x = j.wrapping_mul(0x9E37_79B9_7F4A_7C15) | 1;
    let mut next = || {
        x ^= x << 13;
        x ^= x >> 7;
        x ^= x << 17;
        x as usize
    };
    const B5: usize = B4 + 128 * 128 * 128 * 128; // 270549120: 5-byte codes, thorough tier only (indices 116..)
    let rear = match j % 8 {
        _ if j >= 116 => B5 - 2 + (j as usize - 116) * 2 + (j as usize % 2) * 70_001,
        0 => B3 + next() % 3,
        1 => B3 - 1 - next() % 2,
        2 => B3 + next() % (B4 - B3),
        3 => B4 + next() % 3,
        4 => B4 - 1 - next() % 2,
        5 => B4 + 256 + next() % (1 << 22),
        6 => B4 + ((next() % 200) << 8) + ((next() % 200) << 16) + next() % 256,
        _ => B3 + ((next() % 120) << 7) + next() % 128,
    };
    let k = [2usize, 4, 3, 8][(j / 8) as usize % 4];
    // "a", "a" + 'b' * rear (shares "a"), then a short string sharing only "a": its rear length is `rear`
    let long: String = std::iter::once('a').chain(std::iter::repeat('b').take(rear)).collect();
    let mut strings = vec!["a".to_string(), long.clone(), "ac".to_string(), "ad".to_string()];
    if j % 3 == 0 {
        // a second long string right after the first: large common prefix, small rear length
        strings.insert(2, format!("{}{}", &long[..long.len() - 1], "c")); // same length: the rear length of "ac" stays `rear`
    }
    if j % 5 == 0 {
        strings.push("b".to_string());
    }
    // the short string after the long one must not open a block (block heads are stored verbatim)
    let at = strings.iter().position(|s| s == "ac").unwrap();
    let k = if at % k == 0 { k + 1 } else { k };
    Case { k, strings, order: 0, via_extend: j % 2 == 1, seed: j }
}

/// Consecutive strings sharing a very long prefix (2^16 .. 2^22 bytes) and differing only after it:
/// ascending, with a single descent after the shared prefix, or followed by a proper prefix.
fn long_lcp_case(j: u64) -> Case {
    let lens = [1usize << 20, (1 << 20) + 1, (1 << 20) - 1, 1 << 16, (1 << 21) + 5, 1 << 22, (1 << 16) + 1, 1 << 18];
    let plen = lens[j as usize % lens.len()];
    let shape = (j / lens.len() as u64) % 4;
    let k = [1usize, 2, 4, 3][(j / 3) as usize % 4];
    let p: String = std::iter::repeat("ab").take(plen / 2).chain(std::iter::once(if plen % 2 == 1 { "a" } else { "" })).collect();
    let strings: Vec<String> = match shape {
        0 => vec![format!("{p}m"), format!("{p}c"), format!("{p}x")],          // one descent after the long prefix
        1 => vec![format!("{p}c"), format!("{p}m"), format!("{p}x")],          // ascending
        2 => vec![format!("{p}m"), p.clone(), format!("{p}x")],                // proper prefix after its extension
        _ => vec!["a".into(), format!("{p}m"), format!("{p}mz"), format!("{p}c"), format!("{p}d")],
    };
    Case { k, strings, order: 3, via_extend: j % 2 == 1, seed: j }
}

/// The largest rear length actually encoded: previous length minus common
/// prefix, over the strings that do not open a block.
fn max_encoded_rear(v: &[String], k: usize) -> usize {
    (1..v.len()).filter(|i| i % k != 0).map(|i| v[i - 1].len() - v[i - 1].bytes().zip(v[i].bytes()).take_while(|(a, b)| a == b).count()).max().unwrap_or(0)
}

fn probes(c: &Case) -> Vec<String> {
    let v = &c.strings;
    let mut p: Vec<String> = vec![String::new(), "a".into(), "\u{1}".into(), "\u{10ffff}".into(), "zzzz".into()];
    let step = if v.len() <= 60 { 1 } else { v.len() / 60 };
    for (i, s) in v.iter().enumerate().step_by(step) {
        p.push(s.clone());
        // proper prefixes (in particular of block heads)
        if !s.is_empty() {
            let mut cut = s.len() / 2;
            while !s.is_char_boundary(cut) {
                cut -= 1;
            }
            p.push(s[..cut].to_string());
            let mut t = s.clone();
            t.pop();
            p.push(t);
        }
        // extensions
        p.push(format!("{s}a"));
        p.push(format!("{s}\u{1}"));
        // last char +- 1
        if let Some(ch) = s.chars().last() {
            let base = &s[..s.len() - ch.len_utf8()];
            for d in [-1i64, 1] {
                if let Some(c2) = char::from_u32((ch as i64 + d) as u32) {
                    if c2 != '\0' {
                        p.push(format!("{base}{c2}"));
                    }
                }
            }
        }
        // between neighbours
        if i + 1 < v.len() {
            let t = &v[i + 1];
            let l = s.bytes().zip(t.bytes()).take_while(|(a, b)| a == b).count();
            let mut cut = l;
            while !s.is_char_boundary(cut) {
                cut -= 1;
            }
            p.push(format!("{}\u{1}", &s[..cut]));
        }
    }
    p
}

fn check(cx: &mut Ctx, c: &Case) -> R {
    let v = &c.strings;
    let n = v.len();
    let k = c.k;
    let mut b = cx.must("RearCodedListBuilder::new", || RearCodedListBuilder::new(k))?;
    if c.via_extend {
        // extend wants a lender of borrowed strings, as in the rcl binary
        use lender::IteratorExt;
        cx.must("extend", || b.extend(v.iter().map(|s| s.as_str()).into_lender()))?;
    } else {
        for s in v {
            cx.must("push", || b.push(s))?;
        }
    }
    let bl = cx.must("builder.len", || b.len())?;
    cx.check_eq(bl, n, "builder.len", || "builder len()".into())?;
    let l: RearCodedList = cx.must("build", || b.build())?;

    let len = cx.must("len", || l.len())?;
    cx.check_eq(len, n, "len", || "len()".into())?;
    let len = cx.must("len", || IndexedSeq::len(&l))?;
    cx.check_eq(len, n, "len", || "IndexedSeq::len()".into())?;
    let mut buf = Vec::new();
    for (i, s) in v.iter().enumerate() {
        let g = cx.must("get", || l.get(i))?;
        cx.check(g == *s, "get", || format!("get({i}) with k={k} n={n}: got {:?}, expected {:?}", trunc(&g), trunc(s)))?;
        cx.must("get_in_place", || l.get_in_place(i, &mut buf))?;
        cx.check(buf == s.as_bytes(), "get_in_place", || format!("get_in_place({i}) with k={k} n={n}"))?;
    }
    cx.must_panic("get(n)", || l.get(n))?;

    // iter() / lend() from the start
    let all: Vec<String> = cx.must("iter", || l.iter().collect())?;
    cx.check(all == *v, "iter", || format!("iter() differs (k={k} n={n}, got {} items)", all.len()))?;
    let all: Vec<String> = cx.must("into_iter", || (&l).into_iter().collect())?;
    cx.check(all == *v, "into_iter", || format!("(&list).into_iter() differs (k={k} n={n})"))?;
    // the rest of the Iterator protocol (nth, skip, step_by, count, last, ...) against the input's iterator
    if v.iter().map(|s| s.len()).sum::<usize>() <= 200_000 {
        let it = cx.must("iter", || l.iter())?;
        iter_protocol(cx, "iter", it, v, c.seed ^ n as u64)?;
        let j = (c.seed >> 13) as usize % (n + 1);
        let it = cx.must("iter_from", || l.iter_from(j))?;
        iter_protocol(cx, "iter_from", it, &v[j..], c.seed.rotate_left(29) ^ j as u64)?;
        let it = cx.must("into_iter_from", || (&l).into_iter_from(j))?;
        iter_protocol(cx, "into_iter_from", it, &v[j..], c.seed.rotate_left(47) ^ j as u64)?;
    }
    {
        let mut le = cx.must("into_lender", || (&l).into_lender())?;
        for (i, s) in v.iter().enumerate() {
            let g = cx.must("into_lender.next", || le.next().map(|x| x.to_string()))?;
            cx.check(g.as_deref() == Some(s.as_str()), "into_lender", || format!("into_lender() item {i} (k={k} n={n})"))?;
        }
        let g = cx.must("into_lender.next", || le.next().map(|x| x.to_string()))?;
        cx.check(g.is_none(), "into_lender.end", || "into_lender() past the end".into())?;
    }
    // every start position, with exact hints
    let starts: Vec<usize> = if n <= 80 { (0..=n).collect() } else { (0..=n).step_by(n / 40).chain([n - 1, n]).collect() };
    for j in starts {
        let mut it = cx.must("iter_from", || l.iter_from(j))?;
        for (t, s) in v[j..].iter().enumerate() {
            let r = cx.must("iter_from.len", || it.len())?;
            cx.check_eq(r, n - j - t, "iter_from.len", || format!("iter_from({j}).len() before item {t} (k={k} n={n})"))?;
            let h = cx.must("iter_from.size_hint", || it.size_hint())?;
            cx.check_eq(h, (n - j - t, Some(n - j - t)), "iter_from.size_hint", || format!("iter_from({j}).size_hint() before item {t}"))?;
            let g = cx.must("iter_from.next", || it.next())?;
            cx.check(g.as_deref() == Some(s.as_str()), "iter_from", || format!("iter_from({j}) item {t} (k={k} n={n}): got {:?} expected {:?}", g.as_deref().map(trunc), trunc(s)))?;
        }
        let g = cx.must("iter_from.next", || it.next())?;
        cx.check(g.is_none(), "iter_from.end", || format!("iter_from({j}) yields past the end (k={k} n={n})"))?;
        let r = cx.must("iter_from.len", || it.len())?;
        cx.check_eq(r, 0, "iter_from.len", || format!("iter_from({j}).len() at the end"))?;

        let mut le = cx.must("lend_from", || l.lend_from(j))?;
        for (t, s) in v[j..].iter().enumerate() {
            let r = cx.must("lend_from.len", || ExactSizeLender::len(&le))?;
            cx.check_eq(r, n - j - t, "lend_from.len", || format!("lend_from({j}).len() before item {t} (k={k} n={n})"))?;
            let h = cx.must("lend_from.size_hint", || Lender::size_hint(&le))?;
            cx.check_eq(h, (n - j - t, Some(n - j - t)), "lend_from.size_hint", || format!("lend_from({j}).size_hint() before item {t}"))?;
            let g = cx.must("lend_from.next", || le.next().map(|x| x.to_string()))?;
            cx.check(g.as_deref() == Some(s.as_str()), "lend_from", || format!("lend_from({j}) item {t} (k={k} n={n})"))?;
        }
        let g = cx.must("lend_from.next", || le.next().map(|x| x.to_string()))?;
        cx.check(g.is_none(), "lend_from.end", || format!("lend_from({j}) yields past the end (k={k} n={n})"))?;

        if j % 3 == 0 || j == n {
            let got: Vec<String> = cx.must("into_iter_from", || (&l).into_iter_from(j).collect())?;
            cx.check(got[..] == v[j..], "into_iter_from", || format!("into_iter_from({j}) differs (k={k} n={n})"))?;
        }
    }
    {
        let mut le = cx.must("lend", || l.lend())?;
        let g = cx.must("lend.next", || le.next().map(|x| x.to_string()))?;
        cx.check(g.as_deref() == v.first().map(|s| s.as_str()), "lend", || "lend() first item".into())?;
    }

    // lookups
    for p in probes(c) {
        let present = v.iter().any(|s| *s == p);
        let r = cx.must("index_of", || l.index_of(p.as_str()))?;
        match r {
            Some(i) => cx.check(i < n && v[i] == p, "index_of", || format!("index_of({:?}) = Some({i}) but that index holds {:?} (present: {present}, k={k} n={n})", trunc(&p), v.get(i).map(|s| trunc(s))))?,
            None => cx.check(!present, "index_of", || format!("index_of({:?}) = None but the string was pushed (k={k} n={n}, order {})", trunc(&p), c.order))?,
        }
        let ct = cx.must("contains", || l.contains(p.as_str()))?;
        cx.check_eq(ct, present, "contains", || format!("contains({:?}) (k={k} n={n})", trunc(&p)))?;
        if !present {
            cx.label("probe_absent");
        }
    }
    Ok(())
}

fn trunc(s: &str) -> &str {
    let mut c = s.len().min(60);
    while !s.is_char_boundary(c) {
        c -= 1;
    }
    &s[..c]
}

impl Property for C09 {
    fn id(&self) -> &'static str {
        "C09"
    }
    fn plan(&self, tier: Tier) -> Vec<Segment> {
        vec![
            Segment::random("lists", tier.pick(80_000, 2_000_000), &[0], 8, 1500),
            Segment::random("big-lists", tier.pick(8_000, 240_000), &[1], 16, 6000),
            // rear lengths crossing the variable-byte boundaries 16512 and 2113664 (3- and 4-byte codes)
            Segment::enumerated("long-rear-lengths", tier.pick(16, 120), &[2]),
            Segment::enumerated("long-common-prefixes", tier.pick(16, 32), &[3]),
        ]
    }
    fn watchdog_s(&self) -> u64 {
        // the 270 MB strings of the thorough tier take about a minute on a loaded machine
        900
    }
    fn rule(&self) -> &'static str {
        "case = (block size k in {1,2,3,4,8,16,n-1,n,n+1,..20}, n strings without NUL built as prefix families over 6 alphabets (a/b, ASCII, 2/3/4-byte UTF-8, low code points) with lengths around 127..130 (thorough: a family with >=16512-byte suffixes), order in {sorted, reversed, sorted with duplicates, unsorted}, push or extend) decoded from bytes; oracle = the Vec<String>; observed len, get, get_in_place for every i, iter/into_iter/into_lender/lend, iter_from/lend_from/into_iter_from for every start 0..=n (sampled above 80) with len/size_hint before every next, index_of/contains for stored strings, prefixes, extensions, neighbours and strings between neighbours. Plus an enumerated segment of lists whose rear lengths sit at and inside the 3- and 4-byte variable-byte regimes (16512, 2113664 +-2, up to 6 MB strings; thorough: 270549120 +-2, the 5-byte regime, 270 MB strings). Plus an enumerated segment of 3..5-string lists whose consecutive strings share 2^16..2^22 bytes and differ after them (ascending, a single descent, a proper prefix after its extension). Every iterator is also driven through a generated script of next/nth/size_hint steps and one consuming adaptor (count, last, collect, step_by, skip, fold) in lock-step with the model's iterator. Non-trivial: n>=2 with a non-empty shared prefix between two consecutive strings, or labels n=0, n%k=0, rear>=128, dups, unsorted, multibyte; distinct = distinct hash of the decoded case."
    }
    fn run(&self, data: &[u8], cx: &mut Ctx) -> R {
        let (mode, rest) = data.split_first().unwrap_or((&0, &[]));
        if *mode == 2 {
            let mut b = [0u8; 8];
            b[..rest.len().min(8)].copy_from_slice(&rest[..rest.len().min(8)]);
            let c = long_rear_case(u64::from_le_bytes(b));
            cx.hash(&("long-rear", u64::from_le_bytes(b)));
            cx.describe(|| format!("long rear lengths: k={} n={} string lengths {:?}", c.k, c.strings.len(), c.strings.iter().map(|s| s.len()).collect::<Vec<_>>()));
            let r = max_encoded_rear(&c.strings, c.k);
            cx.label_if(r >= 16_512, "rear>=16512");
            cx.label_if(r >= 2_113_664, "rear>=2113664");
            cx.label_if(r >= 270_549_120, "rear>=270549120");
            if r < 16_000 {
                return Err(Fail::mismatch("harness", format!("harness: long-rear case encodes no long rear length (k={}, max {r})", c.k)));
            }
            cx.nontrivial();
            return check(cx, &c);
        }
        if *mode == 3 {
            let mut b = [0u8; 8];
            b[..rest.len().min(8)].copy_from_slice(&rest[..rest.len().min(8)]);
            let c = long_lcp_case(u64::from_le_bytes(b));
            cx.hash(&("long-lcp", u64::from_le_bytes(b)));
            cx.describe(|| format!("long common prefixes: k={} n={} string lengths {:?} tails {:?}", c.k, c.strings.len(), c.strings.iter().map(|s| s.len()).collect::<Vec<_>>(), c.strings.iter().map(|s| s[s.len().saturating_sub(2)..].to_string()).collect::<Vec<_>>()));
            cx.label("lcp>=65536");
            cx.label_if(c.strings.windows(2).any(|w| w[0] > w[1]), "unsorted");
            cx.nontrivial();
            return check(cx, &c);
        }
        let mut u = Unstructured::new(rest);
        let c = decode(&mut u, cx.tier, *mode == 1);
        cx.hash(&c);
        cx.describe(|| format!("k={} n={} order={} via_extend={} strings={:?}", c.k, c.strings.len(), c.order, c.via_extend, c.strings.iter().take(12).map(|s| trunc(s)).collect::<Vec<_>>()));
        let v = &c.strings;
        let n = v.len();
        cx.label_if(n == 0, "n=0");
        cx.label_if(n > 0 && n % c.k == 0, "n%k=0");
        cx.label_if(c.k > n, "k>n");
        cx.label_if(c.k == 1, "k=1");
        let mut shared = false;
        let mut rear128 = false;
        let mut rear16512 = false;
        let mut sorted = true;
        let mut dups = false;
        for w in v.windows(2) {
            let l = w[0].bytes().zip(w[1].bytes()).take_while(|(a, b)| a == b).count();
            shared |= l > 0;
            rear128 |= w[0].len() - l >= 128;
            rear16512 |= w[0].len() - l >= 16512;
            sorted &= w[0] <= w[1];
            dups |= w[0] == w[1];
        }
        let _ = (rear128, rear16512);
        let r = max_encoded_rear(v, c.k);
        cx.label_if(r >= 128, "rear>=128");
        cx.label_if(r >= 16512, "rear>=16512");
        cx.label_if(!sorted, "unsorted");
        cx.label_if(dups, "dups");
        cx.label_if(v.iter().any(|s| !s.is_ascii()), "multibyte");
        cx.label_if(v.iter().any(|s| s.is_empty()), "empty_string");
        cx.nontrivial_if((n >= 2 && shared) || ["n=0", "n%k=0", "rear>=128", "dups", "unsorted", "multibyte"].iter().any(|l| cx.has_label(l)));
        check(cx, &c)
    }
}
