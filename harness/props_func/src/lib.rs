use engine::Property;
pub mod c07;
pub mod c08;
pub mod c11;
pub mod c16;
pub mod c17;
pub mod c18;
pub mod fb;

pub fn properties() -> Vec<Box<dyn Property>> {
    vec![Box::new(c07::C07), Box::new(c08::C08), Box::new(c11::C11), Box::new(c16::C16), Box::new(c17::C17), Box::new(c18::C18)]
}
