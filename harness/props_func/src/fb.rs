//! Shared infrastructure for the static-function / filter properties
//! (C07, C08, C11, C15, C17): harness-owned rewindable lenders with fault
//! plans and pass counting, key families, builder configurations and the
//! table of concrete builder types.

use engine::*;
use lender::{Lend, Lender, Lending};
use std::fmt::Debug;
use std::hash::Hash;
use std::sync::{Arc, Mutex};
use sux::bits::BitFieldVec;
use sux::func::shard_edge::*;
use sux::func::{VBuilder, VFunc};
use sux::dict::VFilter;
use sux::utils::RewindableIoLender;

// ---------------------------------------------------------------------------
// lenders

#[derive(Debug, Clone)]
pub struct FaultError(pub String);
impl std::fmt::Display for FaultError {
    fn fmt(&self, f: &mut std::fmt::Formatter<'_>) -> std::fmt::Result {
        write!(f, "injected fault: {}", self.0)
    }
}
impl std::error::Error for FaultError {}

pub const TOO_MANY_REWINDS: &str = "too many rewinds";

/// Deterministic attempt bound: a build over `n` keys may rewind its sources
/// at most this many times. Construction is randomised and for some tiny key
/// counts an attempt succeeds with probability below 1% (measured: 100-170
/// attempts for fuse graphs with 101..115 keys), so the bound is generous
/// where attempts are cheap: with success probability >= 0.5% per attempt
/// the chance of exceeding 5000 attempts is below e^-25.
pub fn max_rewinds(n: usize) -> usize {
    static M: std::sync::OnceLock<Option<usize>> = std::sync::OnceLock::new();
    if let Some(m) = M.get_or_init(|| std::env::var("VERIF_MAX_REWINDS").ok().and_then(|s| s.parse().ok())) {
        return *m;
    }
    (1_000_000 / (n + 1)).clamp(64, 5000)
}

/// Open known finding: the MWHC logics never produce a solvable system for a
/// few tiny key counts (see known_findings.json).
pub const KF_MWHC: &str = "mwhc-tiny-n-nonconv";
pub fn mwhc_never_converges(logic: &str, n: usize) -> bool {
    (logic == "Mwhc3NoShards" && matches!(n, 2 | 4 | 9)) || (logic == "Mwhc3Shards" && n == 2)
}

#[derive(Clone, Debug, Hash, PartialEq, Eq)]
pub enum Fault {
    None,
    /// fail when about to yield item `item` (== len: at the end of the stream) of pass `pass`
    Item { pass: usize, item: usize },
    /// the rewind ending pass `after_pass` fails
    Rewind { after_pass: usize },
}

#[derive(Debug, Default)]
pub struct Log {
    pub rewinds: usize,
    pub fault_reached: bool,
    pub too_many: bool,
    pub items_yielded: usize,
}

pub struct PlanLender<T> {
    items: Arc<Vec<T>>,
    pos: usize,
    pass: usize,
    fault: Fault,
    tag: &'static str,
    log: Arc<Mutex<Log>>,
}

impl<T> PlanLender<T> {
    pub fn new(items: Arc<Vec<T>>, fault: Fault, tag: &'static str, log: Arc<Mutex<Log>>) -> Self {
        PlanLender { items, pos: 0, pass: 0, fault, tag, log }
    }
    fn step(&mut self) -> Option<Result<usize, FaultError>> {
        if let Fault::Item { pass, item } = self.fault {
            if pass == self.pass && item == self.pos {
                self.log.lock().unwrap().fault_reached = true;
                // the fault fires once
                self.fault = Fault::None;
                return Some(Err(FaultError(format!("{} item {} of pass {}", self.tag, item, pass))));
            }
        }
        if self.pos < self.items.len() {
            self.pos += 1;
            self.log.lock().unwrap().items_yielded += 1;
            Some(Ok(self.pos - 1))
        } else {
            None
        }
    }
    fn do_rewind(mut self) -> Result<Self, FaultError> {
        {
            let mut l = self.log.lock().unwrap();
            l.rewinds += 1;
            if l.rewinds > max_rewinds(self.items.len()) {
                l.too_many = true;
                return Err(FaultError(TOO_MANY_REWINDS.to_string()));
            }
        }
        if let Fault::Rewind { after_pass } = self.fault {
            if after_pass == self.pass {
                self.log.lock().unwrap().fault_reached = true;
                return Err(FaultError(format!("{} rewind after pass {}", self.tag, after_pass)));
            }
        }
        self.pass += 1;
        self.pos = 0;
        Ok(self)
    }
}

impl<'lend, T> Lending<'lend> for PlanLender<T> {
    type Lend = Result<&'lend T, FaultError>;
}
impl<T> Lender for PlanLender<T> {
    fn next(&mut self) -> Option<Lend<'_, Self>> {
        match self.step() {
            None => None,
            Some(Err(e)) => Some(Err(e)),
            Some(Ok(i)) => Some(Ok(&self.items[i])),
        }
    }
}
impl<T> RewindableIoLender<T> for PlanLender<T> {
    type Error = FaultError;
    fn rewind(self) -> Result<Self, FaultError> {
        self.do_rewind()
    }
}

/// Same, lending `&str` out of a vector of `String`s.
pub struct StrPlanLender(PlanLender<String>);
impl<'lend> Lending<'lend> for StrPlanLender {
    type Lend = Result<&'lend str, FaultError>;
}
impl Lender for StrPlanLender {
    fn next(&mut self) -> Option<Lend<'_, Self>> {
        match self.0.step() {
            None => None,
            Some(Err(e)) => Some(Err(e)),
            Some(Ok(i)) => Some(Ok(self.0.items[i].as_str())),
        }
    }
}
impl RewindableIoLender<str> for StrPlanLender {
    type Error = FaultError;
    fn rewind(self) -> Result<Self, FaultError> {
        self.0.do_rewind().map(StrPlanLender)
    }
}

// ---------------------------------------------------------------------------
// key families

pub trait KeySrc: 'static {
    type T: ?Sized + Debug;
    type Owned: Clone + Send + Sync + Debug + Hash + Eq + 'static;
    type L: RewindableIoLender<Self::T>;
    const NAME: &'static str;
    /// largest key set this family supports
    const MAX: usize;
    fn lender(items: Arc<Vec<Self::Owned>>, fault: Fault, log: Arc<Mutex<Log>>) -> Self::L;
    fn as_t(o: &Self::Owned) -> &Self::T;
    /// distinct for distinct `i` (same style)
    fn member(i: usize, style: u8) -> Self::Owned;
    /// never equal to any member
    fn probe(i: usize, style: u8) -> Self::Owned;
}

fn perm40(i: usize) -> u64 {
    // bijection on 40-bit integers
    ((i as u64).wrapping_mul(0x9E_3779_B97F) ^ 0x55_5555_5555) & 0xFF_FFFF_FFFF
}

pub struct KUsize;
impl KeySrc for KUsize {
    type T = usize;
    type Owned = usize;
    type L = PlanLender<usize>;
    const NAME: &'static str = "usize";
    const MAX: usize = usize::MAX;
    fn lender(items: Arc<Vec<usize>>, fault: Fault, log: Arc<Mutex<Log>>) -> Self::L {
        PlanLender::new(items, fault, "keys", log)
    }
    fn as_t(o: &usize) -> &usize {
        o
    }
    fn member(i: usize, style: u8) -> usize {
        match style % 3 {
            0 => 2 * i,
            1 => 2 * i * 7919,
            _ => 2 * perm40(i) as usize,
        }
    }
    fn probe(i: usize, style: u8) -> usize {
        Self::member(i, style) + 1
    }
}

pub struct KU64;
impl KeySrc for KU64 {
    type T = u64;
    type Owned = u64;
    type L = PlanLender<u64>;
    const NAME: &'static str = "u64";
    const MAX: usize = usize::MAX;
    fn lender(items: Arc<Vec<u64>>, fault: Fault, log: Arc<Mutex<Log>>) -> Self::L {
        PlanLender::new(items, fault, "keys", log)
    }
    fn as_t(o: &u64) -> &u64 {
        o
    }
    fn member(i: usize, style: u8) -> u64 {
        KUsize::member(i, style) as u64 ^ 0xF000_0000_0000_0000
    }
    fn probe(i: usize, style: u8) -> u64 {
        Self::member(i, style) + 1
    }
}

pub struct KU8;
impl KeySrc for KU8 {
    type T = u8;
    type Owned = u8;
    type L = PlanLender<u8>;
    const NAME: &'static str = "u8";
    const MAX: usize = 128;
    fn lender(items: Arc<Vec<u8>>, fault: Fault, log: Arc<Mutex<Log>>) -> Self::L {
        PlanLender::new(items, fault, "keys", log)
    }
    fn as_t(o: &u8) -> &u8 {
        o
    }
    fn member(i: usize, _style: u8) -> u8 {
        (2 * (i % 128)) as u8
    }
    fn probe(i: usize, _style: u8) -> u8 {
        (2 * (i % 128) + 1) as u8
    }
}

fn string_member(i: usize, style: u8) -> String {
    match style % 3 {
        0 => format!("k{i}"),
        1 => format!("http://example.org/a/very/long/common/prefix/k{i:09}"),
        _ => format!("ключ-{i}-é😀"),
    }
}

pub struct KString;
impl KeySrc for KString {
    type T = String;
    type Owned = String;
    type L = PlanLender<String>;
    const NAME: &'static str = "String";
    const MAX: usize = usize::MAX;
    fn lender(items: Arc<Vec<String>>, fault: Fault, log: Arc<Mutex<Log>>) -> Self::L {
        PlanLender::new(items, fault, "keys", log)
    }
    fn as_t(o: &String) -> &String {
        o
    }
    fn member(i: usize, style: u8) -> String {
        string_member(i, style)
    }
    fn probe(i: usize, style: u8) -> String {
        format!("q{}", string_member(i, style))
    }
}

pub struct KStr;
impl KeySrc for KStr {
    type T = str;
    type Owned = String;
    type L = StrPlanLender;
    const NAME: &'static str = "str";
    const MAX: usize = usize::MAX;
    fn lender(items: Arc<Vec<String>>, fault: Fault, log: Arc<Mutex<Log>>) -> Self::L {
        StrPlanLender(PlanLender::new(items, fault, "keys", log))
    }
    fn as_t(o: &String) -> &str {
        o.as_str()
    }
    fn member(i: usize, style: u8) -> String {
        string_member(i, style)
    }
    fn probe(i: usize, style: u8) -> String {
        format!("q{}", string_member(i, style))
    }
}

// ---------------------------------------------------------------------------
// builder configuration

#[derive(Clone, Debug, Hash, PartialEq, Eq)]
pub enum Hint {
    Absent,
    Exact,
    Half,
    Double,
    Zero,
    /// a value in another sharding regime
    Other(usize),
}

#[derive(Clone, Debug, Hash)]
pub struct Cfg {
    pub offline: bool,
    pub low_mem: Option<bool>,
    pub threads: usize,
    pub eps_idx: u8,
    pub log2_buckets: Option<u32>,
    pub seed: u64,
    pub hint: Hint,
    pub check_dups: bool,
}

pub const EPS: [f64; 3] = [0.001, 0.01, 0.1];

impl Default for Cfg {
    fn default() -> Self {
        Cfg { offline: false, low_mem: None, threads: 8, eps_idx: 0, log2_buckets: None, seed: 0, hint: Hint::Absent, check_dups: false }
    }
}

impl Cfg {
    pub fn decode(u: &mut Unstructured) -> Cfg {
        Cfg {
            offline: u.int_in_range(0u8..=4).unwrap_or(1) == 0,
            low_mem: match u.int_in_range(0u8..=3).unwrap_or(0) {
                0 | 1 => None,
                2 => Some(false),
                _ => Some(true),
            },
            threads: [8usize, 1, 2, 3, 4, 16][u.int_in_range(0usize..=5).unwrap_or(0)],
            eps_idx: u.int_in_range(0u8..=2).unwrap_or(0),
            log2_buckets: match u.int_in_range(0u8..=3).unwrap_or(0) {
                0 | 1 => None,
                2 => Some(0),
                _ => Some(4),
            },
            seed: u.arbitrary::<u16>().unwrap_or(0) as u64,
            hint: match u.int_in_range(0u8..=9).unwrap_or(0) {
                0 | 1 => Hint::Absent,
                2 | 3 => Hint::Exact,
                4 => Hint::Half,
                5 => Hint::Double,
                6 => Hint::Zero,
                _ => Hint::Other([100_000usize, 200_000, 400_000, 800_001, 50_000, 20_000_000, 150_000, 3][u.int_in_range(0usize..=7).unwrap_or(0)]),
            },
            check_dups: u.int_in_range(0u8..=3).unwrap_or(1) == 0,
        }
    }
    pub fn hint_value(&self, n: usize) -> Option<usize> {
        match self.hint {
            Hint::Absent => None,
            Hint::Exact => Some(n),
            Hint::Half => Some(n / 2),
            Hint::Double => Some(2 * n),
            Hint::Zero => Some(0),
            Hint::Other(x) => Some(x),
        }
    }
    pub fn label(&self, cx: &mut Ctx, n: usize) {
        cx.label_if(self.offline, "offline");
        cx.label_if(self.threads == 1, "threads=1");
        cx.label_if(self.low_mem == Some(true), "low_mem");
        cx.label_if(self.check_dups, "check_dups");
        match self.hint {
            Hint::Absent => cx.label("hint:absent"),
            Hint::Exact => cx.label("hint:exact"),
            Hint::Other(x) => {
                cx.label("hint:other_regime");
                cx.label_if((x >= 100_000) != (n >= 100_000), "hint:crosses_sharding");
            }
            _ => cx.label("hint:inexact"),
        }
    }
}

macro_rules! configure {
    ($b:expr, $cfg:expr, $n:expr) => {{
        let cfg: &Cfg = $cfg;
        let mut b = $b.offline(cfg.offline).max_num_threads(cfg.threads).eps(EPS[cfg.eps_idx as usize % 3]).seed(cfg.seed).check_dups(cfg.check_dups);
        if let Some(l) = cfg.low_mem {
            b = b.low_mem(l);
        }
        if let Some(l) = cfg.log2_buckets {
            b = b.log2_buckets(l);
        }
        if let Some(h) = cfg.hint_value($n) {
            b = b.expected_num_keys(h);
        }
        b
    }};
}

// ---------------------------------------------------------------------------
// concrete builder types

/// A backend type `Self` for which `VBuilder<W, Self, S, E>` can build functions.
pub trait FuncBuild<K: KeySrc, W, S, E>: Sized
where
    W: epserde::prelude::ZeroCopy + sux::traits::Word,
    Self: sux::traits::BitFieldSlice<W>,
    S: sux::utils::Sig,
    E: ShardEdge<S, 3>,
    K::T: sux::utils::ToSig<S>,
{
    fn build(cfg: &Cfg, n: usize, keys: K::L, values: PlanLender<W>) -> anyhow::Result<VFunc<K::T, W, Self, S, E>>;
    /// backend-specific observations (get_unaligned for bit-field vectors)
    fn extra_checks(_cx: &mut Ctx, _f: &VFunc<K::T, W, Self, S, E>, _keys: &[K::Owned], _values: &[W], _what: &str) -> R {
        Ok(())
    }
}

/// A backend for which `VBuilder<W, Self, S, E>` can build filters (`bits` is
/// ignored by slice backends, whose width is `W::BITS`).
pub trait FilterBuild<K: KeySrc, W, S, E>: Sized
where
    W: epserde::prelude::ZeroCopy + sux::traits::Word,
    Self: sux::traits::BitFieldSlice<W>,
    S: sux::utils::Sig,
    E: ShardEdge<S, 3>,
    K::T: sux::utils::ToSig<S>,
{
    const IS_BFV: bool;
    fn build_filter(cfg: &Cfg, n: usize, keys: K::L, bits: usize) -> anyhow::Result<VFilter<W, VFunc<K::T, W, Self, S, E>>>;
    fn filter_extra(_cx: &mut Ctx, _f: &VFilter<W, VFunc<K::T, W, Self, S, E>>, _keys: &[K::Owned], _bits: usize) -> R {
        Ok(())
    }
}

macro_rules! impl_builds {
    ($(($w:ty, $s:ty, $e:ty)),* $(,)?) => {$(
        impl<K: KeySrc> FuncBuild<K, $w, $s, $e> for Box<[$w]> where K::T: sux::utils::ToSig<$s> {
            fn build(cfg: &Cfg, n: usize, keys: K::L, values: PlanLender<$w>) -> anyhow::Result<VFunc<K::T, $w, Self, $s, $e>> {
                configure!(VBuilder::<$w, Box<[$w]>, $s, $e>::default(), cfg, n).try_build_func(keys, values, dsi_progress_logger::no_logging![])
            }
        }
        impl<K: KeySrc> FuncBuild<K, $w, $s, $e> for BitFieldVec<$w> where K::T: sux::utils::ToSig<$s> {
            fn build(cfg: &Cfg, n: usize, keys: K::L, values: PlanLender<$w>) -> anyhow::Result<VFunc<K::T, $w, Self, $s, $e>> {
                configure!(VBuilder::<$w, BitFieldVec<$w>, $s, $e>::default(), cfg, n).try_build_func(keys, values, dsi_progress_logger::no_logging![])
            }
            fn extra_checks(cx: &mut Ctx, f: &VFunc<K::T, $w, Self, $s, $e>, keys: &[K::Owned], values: &[$w], what: &str) -> R {
                // get_unaligned is documented for widths <= BITS-6, BITS-4 and BITS (the builder adds the padding word)
                // only the values that have a key count (the value source may be longer)
                let max = values[..keys.len().min(values.len())].iter().copied().max().unwrap_or(0);
                let width = ((<$w>::BITS - max.leading_zeros()) as usize).max(1);
                let bits = <$w>::BITS as usize;
                if keys.is_empty() || !(width <= bits - 6 || width == bits - 4 || width == bits) {
                    return Ok(());
                }
                cx.label("get_unaligned");
                for i in 0..keys.len() {
                    let g = cx.must("get_unaligned", || f.get_unaligned(K::as_t(&keys[i])))?;
                    cx.check_eq(g, values[i], "get_unaligned", || format!("{what}: get_unaligned of key #{i} (width {width}, word {})", stringify!($w)))?;
                }
                Ok(())
            }
        }
        impl<K: KeySrc> FilterBuild<K, $w, $s, $e> for Box<[$w]> where K::T: sux::utils::ToSig<$s> {
            const IS_BFV: bool = false;
            fn build_filter(cfg: &Cfg, n: usize, keys: K::L, _bits: usize) -> anyhow::Result<VFilter<$w, VFunc<K::T, $w, Self, $s, $e>>> {
                configure!(VBuilder::<$w, Box<[$w]>, $s, $e>::default(), cfg, n).try_build_filter(keys, dsi_progress_logger::no_logging![])
            }
        }
        impl<K: KeySrc> FilterBuild<K, $w, $s, $e> for BitFieldVec<$w> where K::T: sux::utils::ToSig<$s> {
            const IS_BFV: bool = true;
            fn build_filter(cfg: &Cfg, n: usize, keys: K::L, bits: usize) -> anyhow::Result<VFilter<$w, VFunc<K::T, $w, Self, $s, $e>>> {
                configure!(VBuilder::<$w, BitFieldVec<$w>, $s, $e>::default(), cfg, n).try_build_filter(keys, bits, dsi_progress_logger::no_logging![])
            }
            fn filter_extra(cx: &mut Ctx, f: &VFilter<$w, VFunc<K::T, $w, Self, $s, $e>>, keys: &[K::Owned], bits: usize) -> R {
                let wb = <$w>::BITS as usize;
                if !(bits <= wb - 6 || bits == wb - 4 || bits == wb) {
                    return Ok(());
                }
                cx.label("contains_unaligned");
                for i in 0..keys.len() {
                    let g = cx.must("contains_unaligned", || f.contains_unaligned(K::as_t(&keys[i])))?;
                    cx.check(g, "contains_unaligned", || format!("contains_unaligned false for inserted key #{i} (b={bits}, word {})", stringify!($w)))?;
                }
                Ok(())
            }
        }
    )*};
}

// (word, signature, shard/edge logic) triples for which both backends are instantiated
impl_builds!(
    (usize, [u64; 2], FuseLge3Shards),
    (usize, [u64; 2], FuseLge3NoShards),
    (usize, [u64; 1], FuseLge3NoShards),
    (usize, [u64; 2], FuseLge3FullSigs),
    (usize, [u64; 2], Mwhc3Shards),
    (usize, [u64; 2], Mwhc3NoShards),
    (u64, [u64; 2], FuseLge3Shards),
    (u64, [u64; 1], FuseLge3NoShards),
    (u32, [u64; 2], FuseLge3FullSigs),
    (u32, [u64; 2], Mwhc3Shards),
    (u16, [u64; 2], FuseLge3NoShards),
    (u16, [u64; 1], FuseLge3NoShards),
    (u8, [u64; 2], FuseLge3Shards),
    (u8, [u64; 2], Mwhc3NoShards),
    (u8, [u64; 1], FuseLge3NoShards),
);

/// Dispatches `$body` over the table of (key family, word, backend, sig,
/// logic) rows: `$k`, `$w`, `$d`, `$s`, `$e` are bound as type aliases.
#[macro_export]
macro_rules! with_row {
    ($row:expr, |$k:ident, $w:ident, $d:ident, $s:ident, $e:ident| $body:expr) => {{
        use sux::bits::BitFieldVec;
        use sux::func::shard_edge::*;
        use $crate::fb::*;
        macro_rules! row {
            ($kk:ty, $ww:ty, $dd:ty, $ss:ty, $ee:ty) => {{
                type $k = $kk;
                type $w = $ww;
                type $d = $dd;
                type $s = $ss;
                type $e = $ee;
                $body
            }};
        }
        match $row % $crate::fb::N_ROWS {
            0 => row!(KUsize, usize, BitFieldVec<usize>, [u64; 2], FuseLge3Shards),
            1 => row!(KUsize, usize, Box<[usize]>, [u64; 2], FuseLge3Shards),
            2 => row!(KUsize, usize, BitFieldVec<usize>, [u64; 1], FuseLge3NoShards),
            3 => row!(KUsize, usize, Box<[usize]>, [u64; 2], FuseLge3NoShards),
            4 => row!(KStr, usize, BitFieldVec<usize>, [u64; 2], FuseLge3FullSigs),
            5 => row!(KUsize, usize, BitFieldVec<usize>, [u64; 2], Mwhc3Shards),
            6 => row!(KUsize, usize, Box<[usize]>, [u64; 2], Mwhc3NoShards),
            7 => row!(KU64, u64, BitFieldVec<u64>, [u64; 2], FuseLge3Shards),
            8 => row!(KString, u64, Box<[u64]>, [u64; 1], FuseLge3NoShards),
            9 => row!(KStr, u32, Box<[u32]>, [u64; 2], FuseLge3FullSigs),
            10 => row!(KU64, u32, BitFieldVec<u32>, [u64; 2], Mwhc3Shards),
            11 => row!(KUsize, u16, BitFieldVec<u16>, [u64; 2], FuseLge3NoShards),
            12 => row!(KU8, u16, Box<[u16]>, [u64; 1], FuseLge3NoShards),
            13 => row!(KStr, u8, Box<[u8]>, [u64; 2], FuseLge3Shards),
            14 => row!(KUsize, u8, BitFieldVec<u8>, [u64; 2], Mwhc3NoShards),
            15 => row!(KString, u8, Box<[u8]>, [u64; 1], FuseLge3NoShards),
            16 => row!(KStr, usize, BitFieldVec<usize>, [u64; 2], FuseLge3Shards),
            17 => row!(KU64, usize, Box<[usize]>, [u64; 1], FuseLge3NoShards),
            18 => row!(KUsize, usize, Box<[usize]>, [u64; 2], FuseLge3FullSigs),
            _ => row!(KU64, u64, Box<[u64]>, [u64; 2], FuseLge3Shards),
        }
    }};
}
pub const N_ROWS: u8 = 20;

pub fn logic_name<S, E: ShardEdge<S, 3>>() -> &'static str {
    let n = std::any::type_name::<E>();
    n.rsplit("::").next().unwrap_or(n)
}
