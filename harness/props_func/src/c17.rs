//! C17 — a failed build reports an error; it never returns a wrong function or hangs.

use crate::c07::{gen_values, TWord};
use crate::fb::*;
use crate::with_row;
use common_traits::CastableInto;
use engine::*;
use std::sync::{Arc, Mutex};
use sux::func::shard_edge::ShardEdge;
use sux::traits::BitFieldSlice;
use sux::utils::{Sig, ToSig};

pub struct C17;

/// Open known finding: heavy duplicate multiplicity in a sharded build loops on MaxShardTooBig.
pub const KF_HEAVY_DUPS: &str = "heavy-dups-maxshard-loop";

#[derive(Clone, Debug, Hash)]
pub struct Spec {
    pub row: u8,
    pub n: usize,
    pub filter: bool,
    pub key_style: u8,
    pub val_kind: u8,
    pub cfg: Cfg,
    /// fault on the key stream / on the value stream
    pub key_fault: Fault,
    pub val_fault: Fault,
    /// duplicate plan: (multiplicity, position class, adjacent)
    pub dup: Option<(usize, u8, bool)>,
}

fn has_fault(e: &anyhow::Error, tag: &str) -> bool {
    e.chain().any(|c| c.downcast_ref::<FaultError>().map(|f| f.0.starts_with(tag)).unwrap_or(false))
}

fn run_spec<K: KeySrc, W: TWord, D, S: Sig + Send + Sync, E: ShardEdge<S, 3>>(cx: &mut Ctx, spec: &Spec) -> R
where
    D: FuncBuild<K, W, S, E> + FilterBuild<K, W, S, E> + BitFieldSlice<W>,
    K::T: ToSig<S>,
    u64: CastableInto<W>,
{
    let n0 = spec.n.min(K::MAX);
    let logic = logic_name::<S, E>();
    cx.label(logic);
    cx.label(if spec.filter { "filter" } else { "function" });
    cx.label_if(spec.cfg.offline, "offline");
    // the key list, with the duplicate plan applied
    let mut keys: Vec<K::Owned> = (0..n0).map(|i| K::member(i, spec.key_style)).collect();
    let mut has_dup = false;
    if let Some((m, pos, adjacent)) = spec.dup {
        if n0 >= 1 {
            let src = match pos % 3 {
                0 => 0,
                1 => n0 - 1,
                _ => n0 / 2,
            };
            let k = keys[src].clone();
            for t in 0..m.saturating_sub(1) {
                let at = if adjacent { (src + 1).min(keys.len()) } else { (src + 1 + (t + 1) * keys.len() / (m + 1)).min(keys.len()) };
                keys.insert(at, k.clone());
            }
            has_dup = m >= 2;
            cx.label_if(has_dup, "dup");
            cx.label_if(has_dup && !adjacent, "dup_not_adjacent");
        }
    }
    let n = keys.len();
    // open known finding: a key repeated so often that its shard is always
    // more than 1% above the average makes every attempt end in
    // MaxShardTooBig, which build_loop retries without bound
    if let Some((m, _, _)) = spec.dup {
        if m >= 1000 && n0 >= 100_000 && cx.excluded(KF_HEAVY_DUPS) {
            return Ok(());
        }
    }
    let mut cfg = spec.cfg.clone();
    if has_dup {
        // the property covers duplicates only when checking is enabled
        cfg.check_dups = true;
    }
    if mwhc_never_converges(logic, n) && cx.excluded(KF_MWHC) {
        return Ok(());
    }
    let keys = Arc::new(keys);
    let values = Arc::new(gen_values::<W>(n, spec.val_kind, 1 + (spec.val_kind as u32 * 7) % W::WBITS));
    let klog = Arc::new(Mutex::new(Log::default()));
    let vlog = Arc::new(Mutex::new(Log::default()));
    let kl = K::lender(keys.clone(), spec.key_fault.clone(), klog.clone());

    enum Out {
        Ok(Vec<(usize, u64, u64)>, usize),
        Err(anyhow::Error),
    }
    let out = if spec.filter {
        let r = cx.must("try_build_filter", || <D as FilterBuild<K, W, S, E>>::build_filter(&cfg, n, kl, crate::c08::pick_bits(spec.val_kind, W::WBITS as usize, <D as FilterBuild<K, W, S, E>>::IS_BFV)))?;
        match r {
            Ok(f) => {
                let l = cx.must("len", || f.len())?;
                let mut bad = vec![];
                for i in 0..n {
                    let c = cx.must("contains", || f.contains(K::as_t(&keys[i])))?;
                    if !c && bad.len() < 3 {
                        bad.push((i, 0, 1));
                    }
                }
                Out::Ok(bad, l)
            }
            Err(e) => Out::Err(e),
        }
    } else {
        let vl = PlanLender::new(values.clone(), spec.val_fault.clone(), "values", vlog.clone());
        let r = cx.must("try_build_func", || <D as FuncBuild<K, W, S, E>>::build(&cfg, n, kl, vl))?;
        match r {
            Ok(f) => {
                let l = cx.must("len", || f.len())?;
                let mut bad = vec![];
                for i in 0..n {
                    let g = cx.must("get", || f.get(K::as_t(&keys[i])))?;
                    if g.to64() != values[i].to64() && bad.len() < 3 {
                        bad.push((i, g.to64(), values[i].to64()));
                    }
                }
                Out::Ok(bad, l)
            }
            Err(e) => Out::Err(e),
        }
    };
    let (kreached, krew, ktoo) = {
        let l = klog.lock().unwrap();
        (l.fault_reached, l.rewinds, l.too_many)
    };
    let (vreached, vtoo) = {
        let l = vlog.lock().unwrap();
        (l.fault_reached, l.too_many)
    };
    if ktoo || vtoo {
        return Err(Fail::nonconv("attempt-bound", format!("attempt-bound: the build rewound its sources more than {} times (n={n}, dup={has_dup}, logic {logic}, {cfg:?})", max_rewinds(n))));
    }
    let reached = kreached || vreached;
    cx.label_if(reached, "fault_reached");
    let fault_pass = match (&spec.key_fault, &spec.val_fault) {
        (Fault::Item { pass, .. }, _) | (_, Fault::Item { pass, .. }) => *pass,
        (Fault::Rewind { after_pass }, _) | (_, Fault::Rewind { after_pass }) => *after_pass + 1,
        _ => 0,
    };
    cx.label_if(reached && fault_pass >= 1, "fault_in_retry_pass");
    cx.label_if(reached && matches!(spec.key_fault, Fault::Rewind { .. }) | matches!(spec.val_fault, Fault::Rewind { .. }), "rewind_fault");
    cx.nontrivial_if((reached && fault_pass >= 1) || cx.has_label("dup_not_adjacent"));
    match out {
        Out::Ok(bad, l) => {
            // Ok is acceptable only if nothing went wrong, and then it must be right
            cx.check(!reached, "ok_after_fault", || format!("the build returned Ok although its source reported an error ({:?} / {:?}; n={n}, logic {logic}, {cfg:?})", spec.key_fault, spec.val_fault))?;
            cx.check(!has_dup, "ok_with_dups", || format!("the build returned Ok although the keys contain a duplicate and check_dups is enabled (n={n}, dup={:?}, logic {logic}, {cfg:?})", spec.dup))?;
            cx.check_eq(l, n, "len", || "len() of the returned structure".into())?;
            cx.check(bad.is_empty(), "wrong_function", || format!("Ok returned with a function that does not map supplied keys to their values: {:?} (n={n}, logic {logic}, {cfg:?})", bad))?;
        }
        Out::Err(e) => {
            if reached {
                let tag = if kreached { "keys" } else { "values" };
                cx.check(has_fault(&e, tag), "error_lost", || format!("the source error was not returned to the caller; got: {e:#} (faults {:?} / {:?})", spec.key_fault, spec.val_fault))?;
            } else if has_dup {
                // "after a bounded number of attempts": the bound itself is
                // enforced by the lender (attempt bound); three rewinds are
                // typical, an unbalanced sharding attempt may add some
                cx.label(if krew == 3 { "dup_detected:3_rewinds" } else { "dup_detected:other_rewinds" });
            } else {
                return Err(Fail::mismatch("spurious_error", format!("spurious_error: the build failed although keys are distinct and no fault was reached: {e:#} (n={n}, logic {logic}, {cfg:?})")));
            }
        }
    }
    Ok(())
}

fn decode_fault(u: &mut Unstructured, n: usize) -> Fault {
    match u.int_in_range(0u8..=5).unwrap_or(0) {
        0 | 1 => Fault::None,
        2 => Fault::Rewind { after_pass: u.int_in_range(0usize..=3).unwrap_or(0) },
        _ => Fault::Item { pass: u.int_in_range(0usize..=4).unwrap_or(0), item: u.int_in_range(0usize..=n).unwrap_or(0) },
    }
}

const ENUM_NS: [usize; 8] = [0, 1, 2, 3, 5, 8, 13, 21];
const ENUM_ROWS: [u8; 6] = [0, 2, 4, 8, 13, 7];

/// plans per (row, n): key/value stream x pass 0..=4 x item 0..=n, plus key/value x rewind after pass 0..=3
fn plans(n: usize) -> u64 {
    (2 * 5 * (n + 1) + 2 * 4) as u64
}

fn enumerated(j: u64) -> Spec {
    let per_row: u64 = ENUM_NS.iter().map(|n| plans(*n)).sum();
    let total = per_row * ENUM_ROWS.len() as u64 * 2;
    let mut j = j % total;
    let with_dup = j % 2 == 1;
    j /= 2;
    let row = ENUM_ROWS[(j / per_row) as usize];
    let mut r = j % per_row;
    let mut n = 0;
    for x in ENUM_NS {
        if r < plans(x) {
            n = x;
            break;
        }
        r -= plans(x);
    }
    let items = (2 * 5 * (n + 1)) as u64;
    let (stream, fault) = if r < items {
        let stream = r % 2;
        let pass = (r / 2) % 5;
        let item = r / 10;
        (stream, Fault::Item { pass: pass as usize, item: item as usize })
    } else {
        let r = r - items;
        (r % 2, Fault::Rewind { after_pass: (r / 2) as usize })
    };
    let mut cfg = Cfg::default();
    cfg.check_dups = with_dup;
    Spec {
        row,
        n,
        filter: false,
        key_style: 0,
        val_kind: 3,
        cfg,
        key_fault: if stream == 0 { fault.clone() } else { Fault::None },
        val_fault: if stream == 1 { fault } else { Fault::None },
        // duplicates force three retry passes, so that faults in passes 1..=3 are reached
        dup: if with_dup && n >= 1 { Some((2, (n % 3) as u8, n % 2 == 0)) } else { None },
    }
}

pub fn enum_count() -> u64 {
    let per_row: u64 = ENUM_NS.iter().map(|n| plans(*n)).sum();
    per_row * ENUM_ROWS.len() as u64 * 2
}


// ---- the crate's own line lenders over a faulty seekable source ------------------

/// A `Read + Seek` source over bytes with an injected fault: the k-th seek
/// fails, or the read reaching byte offset `b` after `after_seeks` seeks fails.
struct Faulty {
    data: std::io::Cursor<Vec<u8>>,
    seeks: usize,
    fail_seek_at: Option<usize>,
    fail_read: Option<(usize, u64)>,
    kind: std::io::ErrorKind,
    reached: Arc<Mutex<bool>>,
}

impl std::io::Read for Faulty {
    fn read(&mut self, buf: &mut [u8]) -> std::io::Result<usize> {
        if let Some((after, off)) = self.fail_read {
            let pos = self.data.position();
            if self.seeks >= after && pos + buf.len() as u64 > off && pos <= off {
                if pos < off {
                    // deliver the bytes before the fault first: the error arrives exactly at offset `off`
                    let k = (off - pos) as usize;
                    return self.data.read(&mut buf[..k]);
                }
                *self.reached.lock().unwrap() = true;
                self.fail_read = None;
                return Err(std::io::Error::new(self.kind, "injected read fault"));
            }
        }
        self.data.read(buf)
    }
}

impl std::io::Seek for Faulty {
    fn seek(&mut self, pos: std::io::SeekFrom) -> std::io::Result<u64> {
        // position queries are not rewinds
        if !matches!(pos, std::io::SeekFrom::Current(0)) {
            self.seeks += 1;
            if self.fail_seek_at == Some(self.seeks) {
                *self.reached.lock().unwrap() = true;
                return Err(std::io::Error::new(self.kind, "injected seek fault"));
            }
        }
        self.data.seek(pos)
    }
}

fn has_io_fault(e: &anyhow::Error) -> bool {
    e.chain().any(|c| c.to_string().contains("injected"))
}

/// A compressed key file that ends early: cut at an arbitrary byte, or written
/// line by line with a flush after every line and never finished (so that the
/// decoder delivers whole lines and then reports the missing end). Whenever the
/// harness' own decoder reports an error on the stream, the build must fail.
fn truncated_stream_case(cx: &mut Ctx, kind: u8, keys: &[String], text: &[u8], with_dup: bool, filter: bool, (flushed, sel): (bool, u64)) -> R {
    use std::io::{Read, Write};
    use sux::bits::BitFieldVec;
    use sux::func::shard_edge::FuseLge3Shards;
    use sux::func::VBuilder;
    use sux::utils::{GzipLineLender, ZstdLineLender};
    let lines: Vec<&[u8]> = text.split_inclusive(|b| *b == b'\n').collect();
    let bytes: Vec<u8> = if flushed {
        let k = sel as usize % (lines.len() + 1);
        if kind == 1 {
            let mut e = zstd::stream::write::Encoder::new(Vec::new(), 1).unwrap();
            for l in &lines[..k] {
                e.write_all(l).unwrap();
                e.flush().unwrap();
            }
            e.get_ref().clone()
        } else {
            let mut e = flate2::write::GzEncoder::new(Vec::new(), flate2::Compression::fast());
            for l in &lines[..k] {
                e.write_all(l).unwrap();
                e.flush().unwrap();
            }
            e.get_ref().clone()
        }
    } else {
        let full = if kind == 1 {
            zstd::encode_all(text, 1).unwrap()
        } else {
            let mut e = flate2::write::GzEncoder::new(Vec::new(), flate2::Compression::fast());
            e.write_all(text).unwrap();
            e.finish().unwrap()
        };
        let t = sel as usize % full.len().max(1);
        full[..t].to_vec()
    };
    // the harness' own decoder decides whether the stream is broken
    let mut sink = Vec::new();
    let broken = if kind == 1 {
        match zstd::stream::read::Decoder::new(&bytes[..]) {
            Ok(mut d) => d.read_to_end(&mut sink).is_err(),
            Err(_) => true,
        }
    } else {
        flate2::read::GzDecoder::new(&bytes[..]).read_to_end(&mut sink).is_err()
    };
    let at_line_boundary = sink.is_empty() || sink.ends_with(b"\n");
    cx.hash(&("truncated", kind, keys.len(), with_dup, filter, flushed, sel));
    cx.describe(|| format!("{} key stream of {} keys ending early ({}): {} compressed bytes, own decoder: {} after {} decoded bytes{}", if kind == 1 { "zstd" } else { "gzip" }, keys.len(), if flushed { "flushed lines, no trailer" } else { "cut" }, bytes.len(), if broken { "error" } else { "clean end" }, sink.len(), if at_line_boundary { " (a line boundary)" } else { "" }));
    cx.label("truncated_compressed_stream");
    cx.label_if(broken, "stream_broken");
    cx.label_if(broken && at_line_boundary, "broken_at_line_boundary");
    cx.nontrivial_if(broken);
    if !broken {
        return Ok(());
    }
    let total = keys.len();
    let values = Arc::new((0..total).collect::<Vec<usize>>());
    let vl = PlanLender::new(values, Fault::None, "values", Arc::new(Mutex::new(Log::default())));
    let builder = || VBuilder::<usize, BitFieldVec<usize>, [u64; 2], FuseLge3Shards>::default().check_dups(with_dup);
    let src = std::io::Cursor::new(bytes);
    macro_rules! go {
        ($lender:expr) => {{
            let lender = $lender;
            if filter {
                cx.must("try_build_filter", || builder().try_build_filter(lender, 8, dsi_progress_logger::no_logging![]))?.map(|f| f.len())
            } else {
                cx.must("try_build_func", || builder().try_build_func(lender, vl, dsi_progress_logger::no_logging![]))?.map(|f| f.len())
            }
        }};
    }
    let out: anyhow::Result<usize> = if kind == 1 {
        match ZstdLineLender::new(src) {
            Ok(l) => go!(l),
            Err(e) => Err(e.into()),
        }
    } else {
        match GzipLineLender::new(src) {
            Ok(l) => go!(l),
            Err(e) => Err(e.into()),
        }
    };
    if let Ok(len) = out {
        return Err(Fail::mismatch("ok_after_fault", format!("ok_after_fault: the build returned Ok (len {len}) on a {} key stream that ends early: its decoder reports an error after {} decoded bytes{} ({total} keys were written)", if kind == 1 { "zstd" } else { "gzip" }, sink.len(), if at_line_boundary { ", at a line boundary" } else { "" })));
    }
    Ok(())
}

fn crate_lender_case(cx: &mut Ctx, u: &mut Unstructured) -> R {
    use sux::bits::BitFieldVec;
    use sux::func::shard_edge::FuseLge3Shards;
    use sux::func::VBuilder;
    use sux::utils::{GzipLineLender, LineLender, ZstdLineLender};
    let kind = u.int_in_range(0u8..=2).unwrap_or(0);
    // sizes for which retries are certain (duplicates) or very likely (101..115 keys)
    let with_dup: bool = u.arbitrary().unwrap_or(true);
    let n = if with_dup { u.int_in_range(1usize..=300).unwrap_or(20) } else { u.int_in_range(101usize..=112).unwrap_or(105) };
    let filter: bool = u.arbitrary().unwrap_or(false);
    let fail_seek_at = match u.int_in_range(0u8..=3).unwrap_or(1) {
        0 => None,
        _ => Some(u.int_in_range(1usize..=3).unwrap_or(1)),
    };
    let mut keys: Vec<String> = (0..n).map(|i| format!("key{i}")).collect();
    if with_dup {
        let k = keys[n / 2].clone();
        keys.push(k);
    }
    let text: Vec<u8> = keys.iter().flat_map(|k| k.bytes().chain([b'\n'])).collect();
    let fail_read = if fail_seek_at.is_none() {
        let after = u.int_in_range(0usize..=2).unwrap_or(1);
        let mut off = u.int_in_range(0u64..=text.len() as u64 + 10).unwrap_or(3);
        if u.arbitrary::<bool>().unwrap_or(false) {
            // exactly at the start of a line (or at the very end): nothing of the current line has been read
            let starts: Vec<u64> = std::iter::once(0).chain(text.iter().enumerate().filter(|(_, b)| **b == b'\n').map(|(i, _)| i as u64 + 1)).collect();
            off = starts[off as usize % starts.len()];
        }
        Some((after, off))
    } else {
        None
    };
    use std::io::ErrorKind as EK;
    let ekind = [EK::Other, EK::UnexpectedEof, EK::InvalidData, EK::BrokenPipe, EK::TimedOut, EK::PermissionDenied, EK::UnexpectedEof, EK::NotFound][u.int_in_range(0usize..=7).unwrap_or(0)];
    // compressed streams only: instead of an injected fault, a stream that ends early (truncated file, or a
    // writer that flushed whole lines and died before writing the trailer): the decoder reports the error
    let truncation: Option<(bool, u64)> = if kind != 0 && u.int_in_range(0u8..=3).unwrap_or(1) == 0 { Some((u.arbitrary().unwrap_or(false), u.arbitrary::<u16>().unwrap_or(7) as u64)) } else { None };
    if truncation.is_some() {
        return truncated_stream_case(cx, kind, &keys, &text, with_dup, filter, truncation.unwrap());
    }
    cx.hash(&("crate-lender", kind, n, with_dup, filter, fail_seek_at, fail_read, format!("{ekind:?}")));
    cx.label(&format!("kind:{ekind:?}"));
    cx.describe(|| format!("crate lender kind {kind} over a faulty source: {} keys (dup: {with_dup}), filter: {filter}, fail_seek_at {fail_seek_at:?}, fail_read {fail_read:?}", keys.len()));
    cx.label("crate_lender_over_faulty_source");
    cx.label(["LineLender", "ZstdLineLender", "GzipLineLender"][kind as usize]);
    let reached = Arc::new(Mutex::new(false));
    let bytes = match kind {
        0 => text.clone(),
        1 => zstd::encode_all(&text[..], 1).unwrap(),
        _ => {
            use std::io::Write;
            let mut e = flate2::write::GzEncoder::new(Vec::new(), flate2::Compression::fast());
            e.write_all(&text).unwrap();
            e.finish().unwrap()
        }
    };
    // for compressed streams the read fault offset refers to compressed bytes
    let fail_read = fail_read.map(|(a, o)| (a, o.min(bytes.len() as u64)));
    let src = Faulty { data: std::io::Cursor::new(bytes), seeks: 0, fail_seek_at, fail_read, kind: ekind, reached: reached.clone() };
    let total = keys.len();
    let values = Arc::new((0..total).collect::<Vec<usize>>());
    let vl = PlanLender::new(values.clone(), Fault::None, "values", Arc::new(Mutex::new(Log::default())));
    let builder = || VBuilder::<usize, BitFieldVec<usize>, [u64; 2], FuseLge3Shards>::default().check_dups(with_dup);
    macro_rules! go {
        ($lender:expr) => {{
            let lender = $lender;
            if filter {
                let r = cx.must("try_build_filter", || builder().try_build_filter(lender, 8, dsi_progress_logger::no_logging![]))?;
                r.map(|f| {
                    let bad: Vec<usize> = (0..total).filter(|i| !f.contains(keys[*i].as_str())).take(3).collect();
                    (f.len(), bad)
                })
            } else {
                let r = cx.must("try_build_func", || builder().try_build_func(lender, vl, dsi_progress_logger::no_logging![]))?;
                r.map(|f| {
                    let bad: Vec<usize> = (0..total).filter(|i| f.get(keys[*i].as_str()) != *i).take(3).collect();
                    (f.len(), bad)
                })
            }
        }};
    }
    let out: anyhow::Result<(usize, Vec<usize>)> = match kind {
        0 => go!(LineLender::new(std::io::BufReader::new(src))),
        1 => match ZstdLineLender::new(src) {
            Ok(l) => go!(l),
            Err(e) => Err(e.into()),
        },
        _ => match GzipLineLender::new(src) {
            Ok(l) => go!(l),
            Err(e) => Err(e.into()),
        },
    };
    let reached = *reached.lock().unwrap();
    cx.label_if(reached, "fault_reached");
    cx.nontrivial_if(reached);
    match out {
        Ok((len, bad)) => {
            cx.check(!reached, "ok_after_fault", || format!("the build returned Ok although the key source reported an I/O error (kind {kind}, {total} keys, dup {with_dup}, fail_seek_at {fail_seek_at:?}, fail_read {fail_read:?}); len() = {len}"))?;
            cx.check(!with_dup, "ok_with_dups", || "the build returned Ok although the keys contain a duplicate and check_dups is enabled".to_string())?;
            cx.check_eq(len, total, "len", || "len() of the returned structure".into())?;
            cx.check(bad.is_empty(), "wrong_function", || format!("Ok returned with a structure that fails on supplied keys {bad:?}"))?;
        }
        Err(e) => {
            if reached {
                cx.check(has_io_fault(&e), "error_lost", || format!("the source error was not returned to the caller; got: {e:#}"))?;
            } else if !with_dup {
                return Err(Fail::mismatch("spurious_error", format!("spurious_error: the build failed although keys are distinct and no fault was reached: {e:#}")));
            }
        }
    }
    Ok(())
}

impl Property for C17 {
    fn id(&self) -> &'static str {
        "C17"
    }
    fn plan(&self, tier: Tier) -> Vec<Segment> {
        vec![
            Segment::enumerated("all-fault-plans-small-n", enum_count(), &[2]),
            Segment::random("random-faults-and-dups", tier.pick(6_000, 80_000), &[0], 24, 120),
            Segment::random("dups-in-large-sets", tier.pick(64, 600), &[1], 24, 120),
            Segment::random("crate-lenders-over-faulty-sources", tier.pick(3_000, 40_000), &[3], 16, 40),
        ]
    }
    fn watchdog_s(&self) -> u64 {
        300
    }
    fn deadlock_is_violation(&self) -> bool {
        // "the call always terminates" is part of the statement
        true
    }
    fn rule(&self) -> &'static str {
        "fault sequences owned by the harness: keys and values come from lenders implementing RewindableIoLender with a fault plan (fail at item j of pass p, j = n meaning at the end of the stream; fail the rewind after pass p; none). Enumerated completely for 6 table rows x n in {0,1,2,3,5,8,13,21} x stream x p in 0..=4 x j in 0..=n and rewind faults after passes 0..=3, each with and without a duplicate key (duplicates with check_dups force exactly three retry passes, so faults in passes 1..=3 are reached deterministically); plus random (row, n<=300, configuration, function/filter, fault plans, duplicate plans with multiplicity 2/3/10 at first/last/interior positions, adjacent or spread), plus duplicates (multiplicity up to 3000) in sets of 1e5..4e5 keys crossing shard boundaries, mostly on the sharding logics and in half of the cases with 1-2 solving threads (fewer threads than shards), plus the crate's own LineLender/ZstdLineLender/GzipLineLender over a harness Read+Seek source whose k-th seek or a read at an exact byte offset (arbitrary or the start of a line) fails with one of seven io::ErrorKinds (retries forced by a duplicate or made likely by 101..112 keys), and gzip/zstd key streams that end early (cut at any byte, or flushed line by line and never finished): whenever the harness' own decoder reports an error the build must fail. Oracle: a fault that was reached => Err whose chain contains the injected error; duplicates with check_dups => Err after exactly 3 rewinds; otherwise Ok with len()==n and every pair verified; Ok with any wrong pair is a violation in all cases; more rewinds than the deterministic attempt bound => nonconv. Non-trivial: the fault was reached in a retry pass, or a duplicate not adjacent to its twin; distinct = distinct hash of the decoded spec."
    }
    fn run(&self, data: &[u8], cx: &mut Ctx) -> R {
        let (mode, rest) = data.split_first().unwrap_or((&0, &[]));
        if *mode == 3 {
            let mut u = Unstructured::new(rest);
            return crate_lender_case(cx, &mut u);
        }
        let spec = match *mode {
            2 => {
                let mut b = [0u8; 8];
                b[..rest.len().min(8)].copy_from_slice(&rest[..rest.len().min(8)]);
                cx.label("enumerated-plan");
                enumerated(u64::from_le_bytes(b))
            }
            1 => {
                let mut u = Unstructured::new(rest);
                let n = [100_000usize, 150_000, 199_000, 120_001, 400_001, 250_000][u.int_in_range(0usize..=5).unwrap_or(0)];
                let mut cfg = Cfg::decode(&mut u);
                cfg.check_dups = true;
                // fewer solving threads than shards in half of the cases: the shards are then examined one after
                // the other, and an attempt can end (unsolvable shard) before the duplicate's shard is looked at
                if cfg.seed % 2 == 0 {
                    cfg.threads = [1usize, 1, 2][(cfg.seed / 2 % 3) as usize];
                }
                // mostly the sharding logics
                let row = if u.int_in_range(0u8..=3).unwrap_or(0) != 0 { [0u8, 1, 4, 7, 9, 13, 16, 18, 19][u.int_in_range(0usize..=8).unwrap_or(0)] } else { u.int_in_range(0u8..=N_ROWS - 1).unwrap_or(0) };
                Spec { row, n, filter: u.arbitrary().unwrap_or(false), key_style: 2, val_kind: 3, cfg, key_fault: Fault::None, val_fault: Fault::None, dup: Some(([2usize, 3, 10, 3000][u.int_in_range(0usize..=3).unwrap_or(0)], u.int_in_range(0u8..=2).unwrap_or(2), u.arbitrary().unwrap_or(false))) }
            }
            _ => {
                let mut u = Unstructured::new(rest);
                let row = u.int_in_range(0u8..=N_ROWS - 1).unwrap_or(0);
                let n = match u.int_in_range(0u8..=3).unwrap_or(1) {
                    0 => u.int_in_range(0usize..=10).unwrap_or(3),
                    1 | 2 => u.int_in_range(0usize..=120).unwrap_or(40),
                    _ => u.int_in_range(0usize..=3000).unwrap_or(300),
                };
                let filter = u.int_in_range(0u8..=2).unwrap_or(1) == 0;
                let cfg = Cfg::decode(&mut u);
                let dup = match u.int_in_range(0u8..=2).unwrap_or(0) {
                    0 => None,
                    _ => Some(([2usize, 3, 10][u.int_in_range(0usize..=2).unwrap_or(0)], u.int_in_range(0u8..=2).unwrap_or(0), u.arbitrary().unwrap_or(true))),
                };
                let key_fault = decode_fault(&mut u, n + 10);
                let val_fault = if filter || !matches!(key_fault, Fault::None) { Fault::None } else { decode_fault(&mut u, n + 10) };
                Spec { row, n, filter, key_style: u.int_in_range(0u8..=2).unwrap_or(0), val_kind: u.int_in_range(0u8..=4).unwrap_or(3), cfg, key_fault, val_fault, dup }
            }
        };
        cx.hash(&spec);
        cx.describe(|| format!("{:?}", spec));
        with_row!(spec.row, |K, W, D, S, E| run_spec::<K, W, D, S, E>(cx, &spec))
    }
}
