//! C16 — every signature maps to 3 distinct in-range cells, same at build and query time.

use engine::*;
use epserde::prelude::*;
use sux::func::shard_edge::*;
use sux::utils::Sig;

pub struct C16;

pub trait SigGen: Sig + Copy + std::fmt::Debug {
    fn make(a: u64, b: u64) -> Self;
    fn first(&self) -> u64;
}
impl SigGen for [u64; 1] {
    fn make(a: u64, _b: u64) -> Self {
        [a]
    }
    fn first(&self) -> u64 {
        self[0]
    }
}
impl SigGen for [u64; 2] {
    fn make(a: u64, b: u64) -> Self {
        [a, b]
    }
    fn first(&self) -> u64 {
        self[0]
    }
}

fn word_class(u: &mut Unstructured) -> u64 {
    let k = u.int_in_range(0u32..=63).unwrap_or(0);
    match u.int_in_range(0u8..=9).unwrap_or(0) {
        0 => 0,
        1 => 1,
        2 => 1u64 << k,
        3 => (1u64 << k).wrapping_sub(1),
        4 => !0,
        5 => !0u64 << k,
        6 => (!0u64 << k) | 1,
        7 => 0xFFFF_FFFF,
        _ => u.arbitrary().unwrap_or(0x9E37_79B9_7F4A_7C15),
    }
}

pub fn n_class(u: &mut Unstructured) -> usize {
    let d = u.int_in_range(0usize..=2).unwrap_or(1);
    match u.int_in_range(0u8..=12).unwrap_or(0) {
        0 | 1 => u.int_in_range(0usize..=300).unwrap_or(0),
        2 => ((1usize << u.int_in_range(1u32..=39).unwrap_or(1)) + d).saturating_sub(1),
        3 => 99_999 + d,
        4 => 199_999 + d,
        5 => [399_999usize, 799_999, 49_999][u.int_in_range(0usize..=2).unwrap_or(0)] + d,
        6 => 9_999_999 + d,
        7 => 19_999_999 + d,
        8 => u.int_in_range(100_000usize..=800_000).unwrap_or(100_000),
        9 => u.int_in_range(0usize..=3_000_000).unwrap_or(0),
        // shards at the capacity of the 32-bit vertex type: (l + 2) << log2_seg_size close to 2^32
        10 => [1usize, 2, 4, 8][u.int_in_range(0usize..=3).unwrap_or(0)] * u.int_in_range(3_800_000_000usize..=3_900_000_000).unwrap_or(3_870_000_000),
        _ => {
            // log-uniform up to 10^12
            let e = u.int_in_range(0u32..=39).unwrap_or(0);
            let m = u.arbitrary::<u32>().unwrap_or(0) as usize;
            (((1usize << e) as u128 * (m as u128 + (1 << 32)) >> 32) as usize).min(1_000_000_000_000)
        }
    }
}

// small epsilons make sharding conservative: single shards close to the 2^32-vertex capacity become reachable
const EPS: [f64; 8] = [0.001, 0.0001, 0.01, 0.1, 0.00001, 0.000025, 0.000045, 0.000000001];

fn is_capacity_panic(msg: &str) -> bool {
    msg.contains("does not support more than") || msg.contains("u32::MAX as usize + 1") || msg.contains("Self::Vertex::MAX") || msg.contains("TryFromIntError")
}

fn run_logic<S: SigGen, E>(cx: &mut Ctx, u: &mut Unstructured, name: &str, max_n: usize) -> R
where
    E: ShardEdge<S, 3> + std::fmt::Debug + Serialize + Deserialize,
{
    let n = n_class(u);
    let eps = EPS[u.int_in_range(0usize..=7).unwrap_or(0)];
    let ms_sel: u16 = u.arbitrary().unwrap_or(0);
    let sigs: Vec<S> = (0..64).map(|_| S::make(word_class(u), word_class(u))).collect();
    cx.hash(&(name, n, eps.to_bits(), ms_sel, sigs.iter().map(|s| format!("{:?}", s)).collect::<Vec<_>>()));
    cx.describe(|| format!("logic={name} n={n} eps={eps} max_shard_sel={ms_sel} sigs[..4]={:x?}", &sigs[..4]));
    cx.label(name);
    cx.nontrivial_if(n >= 1);

    let mut e = E::default();
    cx.must("set_up_shards", || e.set_up_shards(n, eps))?;
    let shards = cx.must("num_shards", || e.num_shards())?;
    let hb = cx.must("shard_high_bits", || e.shard_high_bits())?;
    cx.check_eq(shards, 1usize << hb, "num_shards", || format!("{name}: num_shards() vs 1 << shard_high_bits() for n={n}"))?;
    cx.label_if(shards > 1, "sharded");
    // the maximum shards for which try_seed goes on to generate edges
    let lo = n.div_ceil(shards);
    let hi = ((1.01 * n as f64 / shards as f64).floor() as usize).min(n).max(lo);
    let mid = lo + ((hi - lo) as u128 * ms_sel as u128 >> 16) as usize;
    for max_shard in [lo, hi, mid] {
        let mut g = e;
        // a documented capacity assertion may fire outside the documented ranges
        engine::take_panic();
        let r = std::panic::catch_unwind(std::panic::AssertUnwindSafe(|| g.set_up_graphs(n, max_shard)));
        cx.ops(1);
        let (_c, lge) = match r {
            Ok(x) => x,
            Err(_) => {
                let (loc, msg) = engine::take_panic().unwrap_or_default();
                // the capacity assertions fire when a shard needs more than 2^32 vertices: expansion factor (>= 1.105, MWHC 1.23)
                // times the largest shard, rounded up to whole segments (at most 3 segments of 2^25: 2.4%)
                let cmin = if name.starts_with("Mwhc") { 1.23 } else { 1.105 };
                if is_capacity_panic(&msg) && (n > max_n || max_shard as f64 * cmin * 1.03 >= 4_294_967_296.0) {
                    cx.label("capacity_discard");
                    continue;
                }
                return Err(Fail { class: Class::Panic, sig: loc.clone(), msg: format!("set_up_graphs: {name}.set_up_graphs({n}, {max_shard}) after set_up_shards({n}, {eps}) panicked at {loc}: {msg}") });
            }
        };
        cx.label_if(lge, "lge");
        let nv = cx.must("num_vertices", || g.num_vertices())?;
        let ns = cx.must("num_shards", || g.num_shards())?;
        cx.check_eq(ns, shards, "num_shards", || format!("{name}: num_shards() changed by set_up_graphs"))?;
        let nsk = cx.must("num_sort_keys", || g.num_sort_keys())?;
        let total = nv as u128 * ns as u128;
        // round trip through ε-serde and Copy
        let g2 = {
            let mut cur = <AlignedCursor>::new();
            let ok = cx.must("serialize", || g.serialize(&mut cur).is_ok())?;
            cx.check(ok, "serialize", || format!("{name}: serialization failed"))?;
            cur.set_position(0);
            let r = cx.must("deserialize_full", || E::deserialize_full(&mut cur).map_err(|e| e.to_string()))?;
            match r {
                Ok(x) => x,
                Err(e) => return Err(Fail::mismatch("deserialize", format!("deserialize: {name}: {e}"))),
            }
        };
        let g3 = g;
        let mask = if hb == 0 { 0 } else { (1u64 << hb) - 1 };
        // change-point signatures: the edge functions invert a fixed-point product, floor(h * R / 2^64); the
        // boundaries of its preimages are found by bisection on the observable edge() itself, for a fixed shard
        // (the top hb bits of the first word) and a fixed other word, and their neighbours are added to the case.
        let mut extra: Vec<S> = Vec::new();
        if nv >= 3 && max_shard == hi {
            let free = 64 - hb.min(63);
            let fmask = if free >= 64 { !0u64 } else { (1u64 << free) - 1 };
            for round in 0..4u32 {
                let shard_sel = match (ms_sel as u32 + round) % 4 {
                    0 => mask,
                    1 => 1 & mask,
                    2 => sigs[round as usize].first() & mask,
                    _ => mask >> 1,
                };
                let top = if hb == 0 { 0 } else { shard_sel << (64 - hb) };
                let other = sigs[8 + round as usize].first();
                let word = round % 2; // which signature word varies
                let j = ((ms_sel >> 4) as usize + round as usize) % 3;
                let mk = |t: u64| -> S {
                    if word == 0 {
                        S::make(top | (t & fmask), other)
                    } else {
                        S::make(top | (other & fmask), t)
                    }
                };
                let (mut lo_t, mut hi_t) = (sigs[16 + round as usize].first() & if word == 0 { fmask } else { !0 }, sigs[24 + round as usize].first() & if word == 0 { fmask } else { !0 });
                if lo_t > hi_t {
                    std::mem::swap(&mut lo_t, &mut hi_t);
                }
                let f = |cx: &mut Ctx, t: u64| -> R<usize> { cx.must("edge", || g.edge(mk(t))[j]) };
                let flo = f(cx, lo_t)?;
                if f(cx, hi_t)? == flo {
                    continue;
                }
                while hi_t - lo_t > 1 {
                    let mid = lo_t + (hi_t - lo_t) / 2;
                    if f(cx, mid)? != flo {
                        hi_t = mid;
                    } else {
                        lo_t = mid;
                    }
                }
                cx.label("change_point_sigs");
                for t in [lo_t.wrapping_sub(1), lo_t, hi_t, hi_t.wrapping_add(1)] {
                    extra.push(mk(t));
                }
            }
        }
        for sig in sigs.iter().chain(extra.iter()) {
            let sig = *sig;
            let ctx = || format!("{name} n={n} eps={eps} max_shard={max_shard} sig={sig:x?} [{g:?}]");
            let ed = cx.must("edge", || g.edge(sig))?;
            let sh = cx.must("shard", || g.shard(sig))?;
            cx.check(ed[0] != ed[1] && ed[1] != ed[2] && ed[0] != ed[2], "distinct", || format!("vertices {ed:?} not pairwise distinct: {}", ctx()))?;
            for v in ed {
                cx.check((v as u128) < total, "in_array", || format!("vertex {v} outside the backing array of {nv} x {ns} cells: {}", ctx()))?;
                cx.check(v >= sh * nv && v < (sh + 1) * nv, "in_shard", || format!("vertex {v} outside the slice [{}..{}) of shard {sh}: {}", sh * nv, (sh + 1) * nv, ctx()))?;
            }
            let ls = cx.must("local_sig", || g.local_sig(sig))?;
            let le = cx.must("local_edge", || g.local_edge(ls))?;
            for j in 0..3 {
                cx.check(le[j] < nv, "local_in_range", || format!("local vertex {} >= num_vertices {nv}: {}", le[j], ctx()))?;
                cx.check_eq(ed[j], le[j] + sh * nv, "local_vs_global", || format!("edge[{j}] vs local_edge[{j}] + shard base: {}", ctx()))?;
            }
            let sk = cx.must("sort_key", || g.sort_key(sig))?;
            cx.check(sk < nsk, "sort_key", || format!("sort_key {sk} >= num_sort_keys {nsk}: {}", ctx()))?;
            let want_shard = sig.high_bits(hb, mask) as usize;
            cx.check_eq(sh, want_shard, "shard_vs_high_bits", || format!("shard(sig) vs the signature's high bits: {}", ctx()))?;
            cx.check(sh < ns, "shard_range", || format!("shard {sh} >= num_shards {ns}: {}", ctx()))?;
            // determinism: second call, copy, deserialized copy
            let again = cx.must("edge", || g.edge(sig))?;
            cx.check_eq(again, ed, "determinism", || format!("second edge() call: {}", ctx()))?;
            let c3 = cx.must("edge(copy)", || g3.edge(sig))?;
            cx.check_eq(c3, ed, "determinism.copy", || format!("edge() of a copy: {}", ctx()))?;
            let c2 = cx.must("edge(deserialized)", || g2.edge(sig))?;
            cx.check_eq(c2, ed, "determinism.serde", || format!("edge() after an ε-serde round trip: {}", ctx()))?;
            let sh2 = cx.must("shard(deserialized)", || g2.shard(sig))?;
            cx.check_eq(sh2, sh, "determinism.serde", || format!("shard() after an ε-serde round trip: {}", ctx()))?;
            let eh = cx.must("edge_hash", || g.edge_hash(ls))?;
            let eh2 = cx.must("edge_hash", || g2.edge_hash(ls))?;
            cx.check_eq(eh, eh2, "determinism.edge_hash", || format!("edge_hash after round trip: {}", ctx()))?;
        }
    }
    Ok(())
}

impl Property for C16 {
    fn id(&self) -> &'static str {
        "C16"
    }
    fn plan(&self, tier: Tier) -> Vec<Segment> {
        let n = tier.pick(160_000, 4_000_000);
        vec![
            Segment::random("FuseLge3Shards", n, &[0], 24, 1100),
            Segment::random("FuseLge3NoShards<[u64;2]>", n, &[1], 24, 1100),
            Segment::random("FuseLge3NoShards<[u64;1]>", n, &[2], 24, 1100),
            Segment::random("FuseLge3FullSigs", n, &[3], 24, 1100),
            Segment::random("Mwhc3Shards", n, &[4], 24, 1100),
            Segment::random("Mwhc3NoShards", n, &[5], 24, 1100),
        ]
    }
    fn rule(&self) -> &'static str {
        "case = (one of the six (signature type, shard/edge logic) pairs, n in {0..300, 2^k+-1, 49999.., 99999.., 199999.., 399999.., 799999.., 10^7+-1, 2*10^7+-1, uniform <=3*10^6, log-uniform <=10^12}, eps in {1e-4,1e-3,1e-2,1e-1}, the three maximum shards ceil(n/shards), min(n, floor(1.01 n/shards)) and one in between, 64 signatures whose words are 0, 1, 2^k, 2^k-1, all ones, ones shifted, or uniform) decoded from bytes; oracle = validity predicate: vertices pairwise distinct, inside the backing array and the slice of shard(sig), equal to local_edge(local_sig(sig)) + shard base, sort_key < num_sort_keys, shard == high bits of the signature, num_shards == 1 << shard_high_bits, determinism across calls, Copy and an ε-serde round trip. A set-up that panics on a documented capacity assertion is discarded (label capacity_discard) only beyond the documented range. Besides the 64 class-generated signatures, up to 16 change-point signatures per case: the boundaries of the preimages of the fixed-point inversion floor(h*R/2^64), located by bisection on edge() itself for a fixed shard (all ones, 1, random, half) and fixed other word, and their +-1 neighbours. Non-trivial: n >= 1; distinct = distinct hash of the decoded case."
    }
    fn run(&self, data: &[u8], cx: &mut Ctx) -> R {
        let (mode, rest) = data.split_first().unwrap_or((&0, &[]));
        let mut u = Unstructured::new(rest);
        match mode % 6 {
            0 => run_logic::<[u64; 2], FuseLge3Shards>(cx, &mut u, "FuseLge3Shards", 1_000_000_000_000),
            1 => run_logic::<[u64; 2], FuseLge3NoShards>(cx, &mut u, "FuseLge3NoShards<[u64;2]>", 1_000_000_000_000),
            2 => run_logic::<[u64; 1], FuseLge3NoShards>(cx, &mut u, "FuseLge3NoShards<[u64;1]>", 3_800_000_000),
            3 => run_logic::<[u64; 2], FuseLge3FullSigs>(cx, &mut u, "FuseLge3FullSigs", 1_000_000_000_000),
            4 => run_logic::<[u64; 2], Mwhc3Shards>(cx, &mut u, "Mwhc3Shards", 1_000_000_000_000),
            _ => run_logic::<[u64; 2], Mwhc3NoShards>(cx, &mut u, "Mwhc3NoShards", 1_000_000_000_000),
        }
    }
}
