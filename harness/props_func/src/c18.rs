//! C18 — the signature store returns every pair exactly once, in its high-bits shard.

use engine::*;
use epserde::prelude::ZeroCopy;
use std::collections::HashMap;
use sux::utils::{new_offline, new_online, EmptyVal, ShardStore, Sig, SigStore, SigVal};

pub struct C18;

#[derive(Debug, Clone, Hash)]
struct Case {
    sig_words: u8,
    val_kind: u8,
    offline: bool,
    bucket_bits: u32,
    max_shard_bits: u32,
    shard_bits: u32,
    /// (sig[0], sig[1], value)
    pairs: Vec<(u64, u64, u64)>,
}

pub trait Val: ZeroCopy + Send + Sync + Copy + 'static {
    fn from64(v: u64) -> Self;
    fn to64(self) -> u64;
}
impl Val for u8 {
    fn from64(v: u64) -> Self {
        v as u8
    }
    fn to64(self) -> u64 {
        self as u64
    }
}
impl Val for u64 {
    fn from64(v: u64) -> Self {
        v
    }
    fn to64(self) -> u64 {
        self
    }
}
impl Val for usize {
    fn from64(v: u64) -> Self {
        v as usize
    }
    fn to64(self) -> u64 {
        self as u64
    }
}
/// 496-byte values: 512-byte pairs with 128-bit signatures, so that a few
/// million pairs make a bucket file larger than 2 GiB.
impl Val for [u64; 62] {
    fn from64(v: u64) -> Self {
        let mut a = [v; 62];
        a[61] = !v;
        a
    }
    fn to64(self) -> u64 {
        if self[1..61].iter().all(|x| *x == self[0]) && self[61] == !self[0] {
            self[0]
        } else {
            // a torn value: map to something no pushed pair carries
            0xDEAD_BEEF_0BAD_F00D
        }
    }
}
impl Val for EmptyVal {
    fn from64(_: u64) -> Self {
        EmptyVal::default()
    }
    fn to64(self) -> u64 {
        0
    }
}

pub trait SigT: Sig + ZeroCopy + Send + Sync + Copy + 'static {
    fn make(a: u64, b: u64) -> Self;
    fn parts(&self) -> (u64, u64);
}
impl SigT for [u64; 1] {
    fn make(a: u64, _b: u64) -> Self {
        [a]
    }
    fn parts(&self) -> (u64, u64) {
        (self[0], 0)
    }
}
impl SigT for [u64; 2] {
    fn make(a: u64, b: u64) -> Self {
        [a, b]
    }
    fn parts(&self) -> (u64, u64) {
        (self[0], self[1])
    }
}

fn decode(u: &mut Unstructured, big: bool) -> Case {
    let sig_words = u.int_in_range(1u8..=2).unwrap_or(2);
    let val_kind = u.int_in_range(0u8..=3).unwrap_or(0);
    let offline = u.int_in_range(0u8..=19).unwrap_or(1) <= 3 || (big && u.int_in_range(0u8..=2).unwrap_or(1) == 0);
    let bucket_bits = u.int_in_range(0u32..=if offline { 4 } else { 8 }).unwrap_or(0);
    let max_shard_bits = u.int_in_range(0u32..=10).unwrap_or(0);
    let shard_bits = match u.int_in_range(0u8..=4).unwrap_or(0) {
        0 => max_shard_bits,
        1 => 0,
        2 => bucket_bits.min(max_shard_bits),
        _ => u.int_in_range(0u32..=max_shard_bits).unwrap_or(0),
    };
    let n = match u.int_in_range(0u8..=7).unwrap_or(3) {
        0 => 0,
        1 => 1,
        2 => 2,
        3..=5 => u.int_in_range(0usize..=60).unwrap_or(7),
        6 if big => 1024 * u.int_in_range(1usize..=5).unwrap_or(1) + [0usize, 0, 1, 1023][u.int_in_range(0usize..=3).unwrap_or(0)],
        _ => u.int_in_range(0usize..=if big { 5000 } else { 400 }).unwrap_or(30),
    };
    // buckets holding an exact multiple of the 1024-pair read chunk: few buckets
    let bucket_bits = if big && n % 1024 <= 1 && n >= 1024 { bucket_bits.min(1) } else { bucket_bits };
    let regime = u.int_in_range(0u8..=9).unwrap_or(0);
    let seed: u64 = u.arbitrary().unwrap_or(0x1234);
    let mut x = seed | 1;
    let mut next = move || {
        x ^= x << 13;
        x ^= x >> 7;
        x ^= x << 17;
        x
    };
    let top: u64 = u.arbitrary().unwrap_or(0);
    let mut pairs = Vec::with_capacity(n);
    for i in 0..n {
        let low = next();
        let s0 = match regime {
            0 | 1 | 6..=9 => next(),                               // uniform
            2 => (top & 0xFFF0_0000_0000_0000) | (low >> 12),      // all in one shard
            3 => ((top & 0xFFE0_0000_0000_0000).wrapping_add(((i as u64) & 1) << 53)) | (low >> 12), // two adjacent shards
            4 => 0xFFF0_0000_0000_0000 | (low >> 12),              // top bits all ones
            _ => low >> 12,                                          // top bits all zeros
        };
        let dup = i > 0 && u.int_in_range(0u8..=15).unwrap_or(1) == 0;
        if dup {
            // exact duplicate of an earlier pair
            let j = (next() as usize) % i;
            let p = pairs[j];
            pairs.push(p);
        } else {
            pairs.push((s0, next(), next()));
        }
    }
    Case { sig_words, val_kind, offline, bucket_bits, max_shard_bits, shard_bits, pairs }
}

type Multi = HashMap<(usize, u64, u64, u64), usize>;

fn shard_of(s0: u64, bits: u32) -> usize {
    if bits == 0 {
        0
    } else {
        (s0 >> (64 - bits)) as usize
    }
}

fn check_iteration<S: SigT, V: Val>(cx: &mut Ctx, what: &str, shards: Vec<std::sync::Arc<Vec<SigVal<S, V>>>>, c: &Case, sizes: &[usize], want: &Multi) -> R {
    let ns = 1usize << c.shard_bits;
    cx.check_eq(shards.len(), ns, "num_shards", || format!("{what}: number of shards yielded"))?;
    let mut got: Multi = HashMap::new();
    for (i, sh) in shards.iter().enumerate() {
        cx.check_eq(sh.len(), sizes[i], "shard_len", || format!("{what}: shard {i} length vs shard_sizes()[{i}]"))?;
        for sv in sh.iter() {
            let (a, b) = sv.sig.parts();
            let home = shard_of(a, c.shard_bits);
            cx.check_eq(i, home, "shard_home", || format!("{what}: pair with sig {a:#x} yielded in shard {i}"))?;
            *got.entry((i, a, b, sv.val.to64())).or_insert(0) += 1;
        }
    }
    if got != *want {
        let missing = want.iter().find(|(k, v)| got.get(*k).copied().unwrap_or(0) < **v);
        let extra = got.iter().find(|(k, v)| want.get(*k).copied().unwrap_or(0) < **v);
        return Err(Fail::mismatch("multiset", format!("multiset: {what}: yielded pairs differ from the pushed multiset (missing {:x?}, extra {:x?}; pushed {} yielded {})", missing, extra, want.values().sum::<usize>(), got.values().sum::<usize>())));
    }
    Ok(())
}

fn run_store<S: SigT, V: Val, ST: SigStore<S, V>>(cx: &mut Ctx, mut store: ST, c: &Case) -> R {
    let words2 = c.sig_words == 2;
    let mut want: Multi = HashMap::new();
    for (k, (a, b, v)) in c.pairs.iter().enumerate() {
        let b = if words2 { *b } else { 0 };
        let val = V::from64(*v);
        let r = cx.must("try_push", || store.try_push(SigVal { sig: S::make(*a, b), val }).map_err(|e| e.to_string()))?;
        if let Err(e) = r {
            return Err(Fail::mismatch("try_push.err", format!("try_push failed: {e}")));
        }
        *want.entry((shard_of(*a, c.shard_bits), *a, b, val.to64())).or_insert(0) += 1;
        let l = cx.must("SigStore::len", || store.len())?;
        cx.check_eq(l, k + 1, "sigstore.len", || "SigStore::len() after a push".into())?;
    }
    let l = cx.must("SigStore::len", || store.len())?;
    cx.check_eq(l, c.pairs.len(), "sigstore.len", || "SigStore::len()".into())?;
    let e = cx.must("SigStore::is_empty", || store.is_empty())?;
    cx.check_eq(e, c.pairs.is_empty(), "sigstore.is_empty", || "SigStore::is_empty()".into())?;
    let m = cx.must("max_shard_high_bits", || store.max_shard_high_bits())?;
    cx.check_eq(m, c.max_shard_bits, "max_shard_high_bits", || "max_shard_high_bits()".into())?;
    let r = cx.must("into_shard_store", || store.into_shard_store(c.shard_bits).map_err(|e| e.to_string()))?;
    let mut ss = match r {
        Ok(s) => s,
        Err(e) => return Err(Fail::mismatch("into_shard_store.err", format!("into_shard_store failed: {e}"))),
    };
    let l = cx.must("ShardStore::len", || ss.len())?;
    cx.check_eq(l, c.pairs.len(), "shardstore.len", || "ShardStore::len()".into())?;
    let sizes: Vec<usize> = cx.must("shard_sizes", || ss.shard_sizes().to_vec())?;
    cx.check_eq(sizes.len(), 1usize << c.shard_bits, "shard_sizes.len", || "shard_sizes().len()".into())?;
    let mut per_shard = vec![0usize; 1 << c.shard_bits];
    for (k, n) in &want {
        per_shard[k.0] += n;
    }
    cx.check(sizes == per_shard, "shard_sizes", || format!("shard_sizes() {:?} differs from the actual distribution {:?}", &sizes[..sizes.len().min(16)], &per_shard[..per_shard.len().min(16)]))?;
    for round in 0..2 {
        let shards: Vec<_> = cx.must("iter", || {
            let mut it = ss.iter();
            let hint = it.size_hint().0;
            let v: Vec<_> = (&mut it).collect();
            (hint, v)
        })
        .and_then(|(hint, v)| {
            if hint != 1usize << c.shard_bits {
                Err(Fail::mismatch("iter.len", format!("iter.len: borrowed iterator announces {hint} shards")))
            } else {
                Ok(v)
            }
        })?;
        check_iteration(cx, if round == 0 { "first iter()" } else { "second iter()" }, shards, c, &sizes, &want)?;
    }
    let shards: Vec<_> = cx.must("into_iter", || ss.into_iter().collect())?;
    check_iteration(cx, "into_iter()", shards, c, &sizes, &want)?;
    Ok(())
}

fn run_sv<S: SigT, V: Val>(cx: &mut Ctx, c: &Case) -> R {
    if c.offline {
        // the expected number of keys is only a hint: absent, exact, too small, far too large
        let n = c.pairs.len();
        let hint = match (n + c.bucket_bits as usize + c.shard_bits as usize) % 6 {
            0 | 1 => None,
            2 => Some(n),
            3 => Some(n / 2),
            4 => Some(n * 10 + 100_000),
            _ => Some(1usize << 24),
        };
        cx.label_if(hint.is_some_and(|h| h > 2 * n + 1000), "offline_hint_overestimates");
        let st = cx.must("new_offline", || new_offline::<S, V>(c.bucket_bits, c.max_shard_bits, hint).map_err(|e| e.to_string()))?;
        match st {
            Ok(st) => run_store::<S, V, _>(cx, st, c),
            Err(e) => Err(Fail::mismatch("new_offline.err", format!("new_offline failed: {e}"))),
        }
    } else {
        let hint = if c.pairs.len() % 2 == 0 { Some(c.pairs.len()) } else { None };
        let st = cx.must("new_online", || new_online::<S, V>(c.bucket_bits, c.max_shard_bits, hint).map_err(|e| e.to_string()))?;
        match st {
            Ok(st) => run_store::<S, V, _>(cx, st, c),
            Err(e) => Err(Fail::mismatch("new_online.err", format!("new_online failed: {e}"))),
        }
    }
}

/// One bucket (or two) holding more pairs than any chunk/buffer size of the
/// store: around 2^16 pairs and around 1 MiB worth of 8-, 16-, 24- and 32-byte pairs.
fn large_bucket_case(j: u64) -> Case {
    let sizes = [43_690usize, 43_691, 43_692, 65_535, 65_536, 65_537, 131_071, 131_073, 32_768, 32_769, 87_381, 87_383, 100_000, 174_763, 262_145, 50_001];
    let n = sizes[j as usize % sizes.len()];
    let k = j / sizes.len() as u64;
    let sig_words = if k % 4 == 3 { 1 } else { 2 };
    let val_kind = [1u8, 0, 2, 3][(k / 4) as usize % 4];
    let offline = k % 8 != 7;
    let bucket_bits = [0u32, 1, 0, 2][(k % 4) as usize];
    let shard_bits = match (j / 3) % 4 {
        0 => bucket_bits + 1,
        1 => bucket_bits + 2,
        2 => bucket_bits,
        _ => bucket_bits.saturating_sub(1),
    };
    let max_shard_bits = shard_bits.max(bucket_bits) + (j % 2) as u32;
    let mut x = 0x9E37_79B9_7F4A_7C15u64 ^ j.wrapping_mul(0xD6E8_FEB8_6659_FD93);
    let mut next = || {
        x ^= x << 13;
        x ^= x >> 7;
        x ^= x << 17;
        x
    };
    // all pairs in the first bucket when j % 5 == 0 (one bucket carries everything), uniform otherwise
    let one_bucket = j % 5 == 0 && bucket_bits > 0;
    let pairs = (0..n as u64)
        .map(|i| {
            let mut a = next();
            if one_bucket {
                a >>= bucket_bits;
            }
            (a, next(), i)
        })
        .collect();
    Case { sig_words, val_kind, offline, bucket_bits, max_shard_bits, shard_bits, pairs }
}

/// More shards than any 8- or 16-bit shard index can address: max shard bits 11..=20 (straddling 2^16
/// shards and 2^16 shards per bucket), a few hundred pairs, online and offline, split / equal / aggregate.
fn many_shards_case(j: u64) -> Case {
    let max_bits_menu = [17u32, 16, 18, 20, 11, 15, 19, 12];
    let max_shard_bits = max_bits_menu[j as usize % max_bits_menu.len()];
    let k = j / max_bits_menu.len() as u64;
    let bucket_bits = [0u32, 1, 3, 8, 2, 0, 4, 0][(k % 8) as usize];
    let offline = k % 3 == 2;
    let bucket_bits = if offline { bucket_bits.min(4) } else { bucket_bits };
    let shard_bits = match (k / 2) % 4 {
        0 | 1 => max_shard_bits,
        2 => max_shard_bits - 1,
        _ => 16 + (j % 2) as u32,
    }
    .min(max_shard_bits);
    let sig_words = if k % 5 == 4 { 1 } else { 2 };
    let val_kind = [1u8, 0, 3, 2][(k % 4) as usize];
    let mut x = 0x9E37_79B9_7F4A_7C15u64 ^ j.wrapping_mul(0xD6E8_FEB8_6659_FD93);
    let mut next = || {
        x ^= x << 13;
        x ^= x >> 7;
        x ^= x << 17;
        x
    };
    let n = 300 + (j as usize % 7) * 100;
    let mut pairs: Vec<(u64, u64, u64)> = (0..n as u64).map(|i| (next(), next(), i)).collect();
    // extreme signatures: first/last shard, both sides of the top bit, both sides of shard 2^16 within a bucket
    for (i, s) in [0u64, u64::MAX, 1 << 63, (1 << 63) - 1, 1 << 47, (1 << 47) - 1, 1 << 48, (1 << 48) - 1].into_iter().enumerate() {
        pairs.push((s, next(), 5000 + i as u64));
    }
    Case { sig_words, val_kind, offline, bucket_bits, max_shard_bits, shard_bits, pairs }
}

impl Property for C18 {
    fn id(&self) -> &'static str {
        "C18"
    }
    fn plan(&self, tier: Tier) -> Vec<Segment> {
        vec![
            Segment::random("stores", tier.pick(100_000, 1_500_000), &[0], 16, 300),
            Segment::random("big-stores", tier.pick(6_000, 60_000), &[1], 16, 300),
            // buckets above every buffer size the store could use: 2^10 pairs, 2^16 pairs, 1 MiB of 8/16/24/32-byte pairs
            Segment::enumerated("large-buckets", tier.pick(32, 256), &[2]),
            // a single bucket file above 2 GiB (one read(2) call returns at most 0x7ffff000 bytes)
            Segment::enumerated("bucket-file-above-2GiB", tier.pick(1, 3), &[3]),
            // more than 2^8 / 2^16 shards, and more than 2^16 shards per bucket
            Segment::enumerated("many-shards", tier.pick(48, 192), &[4]),
        ]
    }
    fn rule(&self) -> &'static str {
        "case = (signature type in {[u64;1],[u64;2]}, value type in {u8,u64,usize,EmptyVal}, online/offline (offline with an expected-size hint that is absent, exact, half, 10x+100000 or 2^24), bucket bits 0..=8 (offline 0..=4), max shard bits 0..=10, requested shard bits 0..=max (fewer, equal, more than the bucket bits), a multiset of pairs whose high bits are uniform / all in one shard / in two adjacent shards / all ones / all zeros, with exact duplicates) decoded from bytes; oracle = a hash multiset of (home shard, sig, value) built from the pushed pairs; observed SigStore::len after every push, ShardStore::len, shard_sizes, two borrowed iterations and the consuming one: number of shards, each shard's length, home shard of every pair, multiset equality. Plus one to three offline stores with 512-byte pairs whose single bucket file exceeds 2 GiB (4.2 million pairs; needs about 2.2 GB of temporary disk and 5 GB of memory). Plus an enumerated segment of stores whose single buckets hold 32768..262145 pairs (around 2^15, 2^16, 2^17 pairs and 1 MiB of 8/16/24/32-byte pairs), online and offline, split, equal and aggregate. Plus an enumerated segment of stores with max shard bits 11..=20 (more than 2^16 shards, and more than 2^16 shards per bucket), a few hundred pairs with extreme signatures, online and offline. Non-trivial: at least 2 non-empty shards and shard bits != bucket bits; distinct = distinct hash of the decoded case."
    }
    fn run(&self, data: &[u8], cx: &mut Ctx) -> R {
        let (mode, rest) = data.split_first().unwrap_or((&0, &[]));
        let mut u = Unstructured::new(rest);
        let c = if *mode == 3 {
            let mut b = [0u8; 8];
            b[..rest.len().min(8)].copy_from_slice(&rest[..rest.len().min(8)]);
            let j = u64::from_le_bytes(b);
            cx.label("bucket>2GiB");
            // 4.2 million pairs of 512 bytes: 2.15 GB in one bucket; j = 1: two buckets aggregated into one shard,
            // everything in the first; j = 2: exactly at the 0x7ffff000-byte boundary plus one pair
            let n = if j % 3 == 2 { 0x7fff_f000usize / 512 + 1 } else { 4_200_000 };
            let bucket_bits = (j % 3 == 1) as u32;
            let mut x = 0x9E37_79B9_7F4A_7C15u64 ^ j;
            let pairs = (0..n as u64)
                .map(|i| {
                    x ^= x << 13;
                    x ^= x >> 7;
                    x ^= x << 17;
                    (x >> bucket_bits, x.rotate_left(17), i)
                })
                .collect();
            Case { sig_words: 2, val_kind: 4, offline: true, bucket_bits, max_shard_bits: bucket_bits, shard_bits: 0, pairs }
        } else if *mode == 4 {
            let mut b = [0u8; 8];
            b[..rest.len().min(8)].copy_from_slice(&rest[..rest.len().min(8)]);
            cx.label("many_shards");
            many_shards_case(u64::from_le_bytes(b))
        } else if *mode == 2 {
            let mut b = [0u8; 8];
            b[..rest.len().min(8)].copy_from_slice(&rest[..rest.len().min(8)]);
            large_bucket_case(u64::from_le_bytes(b))
        } else {
            decode(&mut u, *mode == 1)
        };
        cx.label_if(*mode == 2, "large_bucket");
        cx.hash(&c);
        cx.describe(|| format!("sig_words={} val_kind={} offline={} bucket_bits={} max_shard_bits={} shard_bits={} pairs({})={:x?}", c.sig_words, c.val_kind, c.offline, c.bucket_bits, c.max_shard_bits, c.shard_bits, c.pairs.len(), &c.pairs[..c.pairs.len().min(6)]));
        cx.label(if c.offline { "offline" } else { "online" });
        cx.label(match c.shard_bits.cmp(&c.bucket_bits) {
            std::cmp::Ordering::Less => "shard<bucket(aggregate)",
            std::cmp::Ordering::Equal => "shard=bucket",
            std::cmp::Ordering::Greater => "shard>bucket(split)",
        });
        cx.label_if(c.pairs.is_empty(), "empty");
        let mut nonempty = std::collections::HashSet::new();
        for p in &c.pairs {
            nonempty.insert(shard_of(p.0, c.shard_bits));
        }
        cx.label_if(nonempty.len() == 1 && c.shard_bits > 0, "skewed:one_shard");
        cx.nontrivial_if(nonempty.len() >= 2 && c.shard_bits != c.bucket_bits);
        match (c.sig_words, c.val_kind) {
            (1, 0) => run_sv::<[u64; 1], u8>(cx, &c),
            (1, 1) => run_sv::<[u64; 1], u64>(cx, &c),
            (1, 2) => run_sv::<[u64; 1], usize>(cx, &c),
            (1, _) => run_sv::<[u64; 1], EmptyVal>(cx, &c),
            (_, 4) => run_sv::<[u64; 2], [u64; 62]>(cx, &c),
            (_, 0) => run_sv::<[u64; 2], u8>(cx, &c),
            (_, 1) => run_sv::<[u64; 2], u64>(cx, &c),
            (_, 2) => run_sv::<[u64; 2], usize>(cx, &c),
            (_, _) => run_sv::<[u64; 2], EmptyVal>(cx, &c),
        }
    }
}
