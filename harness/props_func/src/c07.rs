//! C07 — a built static function returns the stored value for every key, in any config.

use crate::fb::*;
use crate::with_row;
use engine::*;
use epserde::prelude::ZeroCopy;
use std::sync::{Arc, Mutex};
use sux::func::shard_edge::ShardEdge;
use sux::func::VFunc;
use sux::traits::{BitFieldSlice, Word};
use sux::utils::{Sig, ToSig};

pub struct C07;

pub trait TWord: Word + ZeroCopy + Send + Sync + 'static {
    fn from64(v: u64) -> Self;
    fn to64(self) -> u64;
    const WBITS: u32;
}
macro_rules! impl_tword { ($($t:ty),*) => {$( impl TWord for $t { fn from64(v: u64) -> Self { v as $t } fn to64(self) -> u64 { self as u64 } const WBITS: u32 = <$t>::BITS; } )*}; }
impl_tword!(u8, u16, u32, u64, usize);

#[derive(Clone, Debug, Hash)]
pub struct Spec {
    pub row: u8,
    pub n: usize,
    pub key_style: u8,
    pub val_kind: u8,
    pub val_bits: u32,
    pub cfg: Cfg,
    pub cfg2: Option<Cfg>,
}

pub fn mask64(bits: u32) -> u64 {
    if bits >= 64 {
        u64::MAX
    } else {
        (1u64 << bits) - 1
    }
}

pub fn gen_values<W: TWord>(n: usize, kind: u8, bits: u32) -> Vec<W> {
    let bits = bits.clamp(1, W::WBITS);
    let m = mask64(bits);
    (0..n)
        .map(|i| {
            let v = match kind % 6 {
                0 => i as u64 & mask64(W::WBITS),
                1 => 0,
                2 => m,
                3 => (i as u64).wrapping_mul(0x9E37_79B9_7F4A_7C15).rotate_left(23) & m,
                4 => {
                    if i == n / 2 {
                        m
                    } else {
                        (i % 3) as u64 & m
                    }
                }
                _ => {
                    // the maximum is an exact power of two
                    if i == n / 3 {
                        1u64 << (bits - 1)
                    } else {
                        (i as u64).wrapping_mul(0x2545_F491_4F6C_DD1D) & (m >> 1)
                    }
                }
            };
            W::from64(v)
        })
        .collect()
}

pub fn gen_keys<K: KeySrc>(n: usize, style: u8) -> Vec<K::Owned> {
    (0..n).map(|i| K::member(i, style)).collect()
}

/// Builds once and verifies every pair. Returns the number of rewinds seen.
pub fn build_and_verify<K: KeySrc, W: TWord, D, S: Sig + Send + Sync, E: ShardEdge<S, 3>>(cx: &mut Ctx, cfg: &Cfg, keys: &Arc<Vec<K::Owned>>, values: &Arc<Vec<W>>, what: &str) -> R<(VFunc<K::T, W, D, S, E>, usize)>
where
    D: FuncBuild<K, W, S, E> + BitFieldSlice<W>,
    K::T: ToSig<S>,
{
    let n = keys.len();
    let klog = Arc::new(Mutex::new(Log::default()));
    let vlog = Arc::new(Mutex::new(Log::default()));
    let kl = K::lender(keys.clone(), Fault::None, klog.clone());
    let vl = PlanLender::new(values.clone(), Fault::None, "values", vlog.clone());
    let r = cx.must("try_build_func", || D::build(cfg, n, kl, vl))?;
    let rewinds = klog.lock().unwrap().rewinds;
    let f = match r {
        Ok(f) => f,
        Err(e) => {
            if klog.lock().unwrap().too_many || vlog.lock().unwrap().too_many {
                return Err(Fail::nonconv("attempt-bound", format!("attempt-bound: {what}: try_build_func did not converge within {} attempts on {n} distinct keys (logic {}, {cfg:?})", max_rewinds(n), logic_name::<S, E>())));
            }
            return Err(Fail::mismatch("build.err", format!("build.err: {what}: try_build_func failed on {n} distinct keys: {e:#} ({cfg:?})")));
        }
    };
    let l = cx.must("len", || f.len())?;
    cx.check_eq(l, n, "len", || format!("{what}: f.len() ({cfg:?})"))?;
    let e = cx.must("is_empty", || f.is_empty())?;
    cx.check_eq(e, n == 0, "is_empty", || format!("{what}: f.is_empty()"))?;
    let mut wrong = 0usize;
    let mut first: Option<(usize, u64, u64)> = None;
    cx.ops(n as u64);
    let res = std::panic::catch_unwind(std::panic::AssertUnwindSafe(|| {
        for i in 0..n {
            let g = f.get(K::as_t(&keys[i]));
            if g.to64() != values[i].to64() {
                wrong += 1;
                if first.is_none() {
                    first = Some((i, g.to64(), values[i].to64()));
                }
            }
        }
    }));
    if res.is_err() {
        let (loc, msg) = engine::take_panic().unwrap_or_default();
        return Err(Fail { class: Class::Panic, sig: loc.clone(), msg: format!("get: {what}: f.get() panicked at {loc}: {msg}") });
    }
    if let Some((i, g, w)) = first {
        return Err(Fail::mismatch("get", format!("get: {what}: {wrong} of {n} keys map to a wrong value; first: key #{i} {:?} -> {g}, expected {w} (logic {}, {cfg:?}, {rewinds} rewinds)", keys[i], logic_name::<S, E>())));
    }
    D::extra_checks(cx, &f, keys, values, what)?;
    Ok((f, rewinds))
}

fn run_spec<K: KeySrc, W: TWord, D, S: Sig + Send + Sync, E: ShardEdge<S, 3>>(cx: &mut Ctx, spec: &Spec) -> R
where
    D: FuncBuild<K, W, S, E> + BitFieldSlice<W>,
    K::T: ToSig<S>,
{
    let n = spec.n.min(K::MAX);
    cx.label(&format!("key:{}", K::NAME));
    cx.label(logic_name::<S, E>());
    cx.label(if std::any::type_name::<D>().contains("BitFieldVec") { "backend:BitFieldVec" } else { "backend:Box" });
    cx.label_if(n <= 100, "n<=100");
    cx.label_if(n == 0, "n=0");
    cx.label_if(n > 100 && n <= 100_000, "n<=100k");
    cx.label_if(n > 100_000, "n>100k");
    cx.label_if(spec.val_kind % 6 == 1, "all_zero_values");
    cx.label_if(spec.val_kind % 6 == 5, "max_value_power_of_two");
    spec.cfg.label(cx, n);
    cx.nontrivial_if(n >= 1);
    if mwhc_never_converges(logic_name::<S, E>(), n) && cx.excluded(KF_MWHC) {
        return Ok(());
    }
    let keys = Arc::new(gen_keys::<K>(n, spec.key_style));
    // a value source may be longer than the key source (the crate's own tests pass `0..`): the surplus values,
    // here larger than every used one, must not influence the function
    let mut values = gen_values::<W>(n, spec.val_kind, spec.val_bits);
    let surplus = [0usize, 1, 0, 3][(spec.cfg.seed % 4) as usize];
    for _ in 0..surplus {
        values.push(W::from64(u64::MAX));
    }
    cx.label_if(surplus > 0, "surplus_values");
    let values = Arc::new(values);
    let (_f, rewinds) = build_and_verify::<K, W, D, S, E>(cx, &spec.cfg, &keys, &values, "first configuration")?;
    cx.label_if(rewinds > 64, "attempts>64");
    cx.label_if(rewinds >= 1, "retry_pass>=1");
    if let Some(c2) = &spec.cfg2 {
        // metamorphic: the hint and the performance knobs never change what the function returns
        cx.label("second_config");
        let (_f2, r2) = build_and_verify::<K, W, D, S, E>(cx, c2, &keys, &values, "second configuration")?;
        cx.label_if(r2 >= 1, "retry_pass>=1");
    }
    Ok(())
}

pub fn decode_spec(u: &mut Unstructured, mode: u8, tier: Tier) -> Spec {
    let row = u.int_in_range(0u8..=N_ROWS - 1).unwrap_or(0);
    let n = match mode {
        // random configurations on small sets
        0 => match u.int_in_range(0u8..=5).unwrap_or(3) {
            0 => u.int_in_range(0usize..=12).unwrap_or(3),
            1 | 2 => u.int_in_range(0usize..=130).unwrap_or(50),
            _ => u.int_in_range(0usize..=3000).unwrap_or(700),
        },
        // regime switches
        _ => {
            let d = u.int_in_range(0usize..=2).unwrap_or(1);
            let base = match tier {
                Tier::Quick => [99_999usize, 102_399, 149_999, 199_899, 131_071, 99_999][u.int_in_range(0usize..=5).unwrap_or(0)],
                Tier::Thorough => [99_999usize, 199_999, 399_999, 799_999, 149_999, 1_699_999, 199_899, 60_000, 102_399, 131_071, 204_799, 409_599][u.int_in_range(0usize..=11).unwrap_or(0)],
            };
            base + d
        }
    };
    let mut cfg = Cfg::decode(u);
    if mode != 0 && n % 1024 <= 2 {
        // sizes that are multiples of the signature store's 1024-pair read chunk:
        // mostly on disk, with few buckets
        cfg.offline = cfg.seed % 4 != 0;
        if cfg.seed % 3 != 0 {
            cfg.hint = Hint::Other([3usize, 10_000, 50_000][cfg.seed as usize % 3]);
        }
    }
    let cfg2 = if mode == 0 && u.int_in_range(0u8..=2).unwrap_or(0) == 0 { Some(Cfg::decode(u)) } else { None };
    Spec { row, n, key_style: u.int_in_range(0u8..=2).unwrap_or(0), val_kind: u.int_in_range(0u8..=5).unwrap_or(0), val_bits: u.int_in_range(1u32..=64).unwrap_or(8), cfg, cfg2 }
}

/// Builds in the pure peeling regimes of the fuse logics: more than 800000
/// keys for the sharded logics and more than 100000 for FuseLge3NoShards (no
/// lazy Gaussian elimination there); 800001 sits right above the switch, where
/// about a third of the seeds give a graph that does not peel at the first
/// attempt; 400000, 799999 and 800000 keys are the sharded sizes at which the first attempt most often has an
/// unbalanced shard (MaxShardTooBig: 12% and 50% of the seeds). The first 10 entries are the quick tier.
pub fn peeling_spec(j: usize) -> Spec {
    const T: [(usize, u8); 24] = [
        (800_001, 0),
        (100_001, 3),
        (800_001, 18),
        (100_003, 2),
        (800_001, 7),
        (150_001, 11),
        (799_999, 19),
        (800_000, 1),
        (400_000, 7),
        (2_500_000, 0),
        (5_000_001, 7),
        (10_000_001, 2),
        (20_000_001, 19),
        (4_999_999, 11),
        (20_500_000, 1),
        (1_000_003, 16),
        (1_700_001, 5),
        (10_000_000, 6),
        (6_000_000, 0),
        (20_000_001, 18),
        (3_000_000, 10),
        (800_001, 13),
        (400_001, 8),
        (800_000, 4),
    ];
    let (n, row) = T[j % T.len()];
    let mut cfg = Cfg::default();
    cfg.seed = (j / T.len()) as u64 * 7919 + j as u64;
    cfg.low_mem = [Some(true), None, Some(false)][j % 3];
    cfg.offline = j % 7 == 6;
    cfg.threads = [8usize, 1, 4, 16][j % 4];
    if j % 4 == 1 {
        cfg.hint = Hint::Exact;
    }
    Spec { row, n, key_style: 0, val_kind: (j % 6) as u8, val_bits: 1 + (j * 7 % 64) as u32, cfg, cfg2: None }
}

/// One build per key type for which the crate implements `ToSig` (the strings
/// in their four forms, the twelve primitive integers, slices of them), at a
/// key count that the default logic shards, and a small one: the signature of
/// every key type must be good enough for the build to terminate and verify.
fn key_type_case(cx: &mut Ctx, j: u64) -> R {
    use sux::bits::BitFieldVec;
    use sux::func::shard_edge::{FuseLge3NoShards, FuseLge3Shards};
    use sux::func::VBuilder;
    let big = j % 2 == 0;
    let two_words = (j / 2) % 2 == 0;
    let ty = (j / 4) % 22;
    macro_rules! def_run {
        ($fname:ident, $S:ty, $E:ty) => {
    fn $fname<T: std::fmt::Debug + Send + Sync + 'static + ToSig<$S>>(cx: &mut Ctx, name: &str, keys: Vec<T>) -> R {
        type S = $S;
        type E = $E;
        let n = keys.len();
        cx.hash(&("key-type", name, n, std::any::type_name::<S>()));
        cx.describe(|| format!("key type {name}: {n} keys, signatures {}, logic {}", std::any::type_name::<S>(), std::any::type_name::<E>()));
        cx.label(&format!("key:{name}"));
        cx.nontrivial();
        let keys = Arc::new(keys);
        let klog = Arc::new(Mutex::new(Log::default()));
        let kl = PlanLender::new(keys.clone(), Fault::None, "keys", klog.clone());
        let vl = PlanLender::new(Arc::new((0..n).collect::<Vec<usize>>()), Fault::None, "values", Arc::new(Mutex::new(Log::default())));
        let r = cx.must("try_build_func", || VBuilder::<usize, BitFieldVec<usize>, S, E>::default().try_build_func(kl, vl, dsi_progress_logger::no_logging![]))?;
        let f = match r {
            Ok(f) => f,
            Err(e) => {
                if klog.lock().unwrap().too_many {
                    return Err(Fail::nonconv("attempt-bound", format!("attempt-bound: try_build_func did not converge within {} attempts on {n} distinct keys of type {name} ({})", max_rewinds(n), std::any::type_name::<E>())));
                }
                return Err(Fail::mismatch("build.err", format!("build.err: key type {name}: {e:#}")));
            }
        };
        for (i, k) in keys.iter().enumerate() {
            let g = cx.must("get", || f.get(k))?;
            if g != i {
                return Err(Fail::mismatch("get", format!("get: key type {name}: key #{i} {k:?} maps to {g}")));
            }
        }
        Ok(())
    }
        };
    }
    def_run!(run2, [u64; 2], FuseLge3Shards);
    def_run!(run1, [u64; 1], FuseLge3NoShards);
    macro_rules! go {
        ($name:expr, $keys:expr) => {{
            if two_words {
                run2(cx, $name, $keys)
            } else {
                run1(cx, $name, $keys)
            }
        }};
    }
    macro_rules! ints {
        ($t:ty) => {{
            let n = if big { 100_003usize } else { 1000 }.min(<$t>::MAX as u128 as usize / 2 + 1).min(60_000usize.max(if <$t>::BITS > 16 { usize::MAX } else { 0 }));
            go!(stringify!($t), (0..n).map(|i| (i as u128).wrapping_mul(0x9E37_79B9_7F4A_7C15_F39C_C060_5CED_C835) as $t).collect::<std::collections::BTreeSet<$t>>().into_iter().collect::<Vec<$t>>())
        }};
    }
    let n = if big { 100_003usize } else { 1000 };
    match ty {
        0 => go!("String", (0..n).map(|i| format!("key{i}")).collect::<Vec<String>>()),
        1 => {
            let v: &'static Vec<String> = Box::leak(Box::new((0..n).map(|i| format!("key{i}")).collect()));
            go!("&String", v.iter().collect::<Vec<&'static String>>())
        }
        2 => {
            let v: &'static Vec<String> = Box::leak(Box::new((0..n).map(|i| format!("key{i}")).collect()));
            go!("&str", v.iter().map(|s| s.as_str()).collect::<Vec<&'static str>>())
        }
        3 => ints!(usize),
        4 => ints!(isize),
        5 => ints!(u8),
        6 => ints!(i8),
        7 => ints!(u16),
        8 => ints!(i16),
        9 => ints!(u32),
        10 => ints!(i32),
        11 => ints!(u64),
        12 => ints!(i64),
        13 => ints!(u128),
        14 => ints!(i128),
        15 => {
            let v: &'static Vec<Vec<u8>> = Box::leak(Box::new((0..n).map(|i| format!("k{i}").into_bytes()).collect()));
            go!("&[u8]", v.iter().map(|s| s.as_slice()).collect::<Vec<&'static [u8]>>())
        }
        16 => {
            let v: &'static Vec<Vec<u64>> = Box::leak(Box::new((0..n as u64).map(|i| vec![i, i ^ 7, 3][..1 + (i % 3) as usize].to_vec()).collect::<std::collections::BTreeSet<Vec<u64>>>().into_iter().collect()));
            go!("&[u64]", v.iter().map(|s| s.as_slice()).collect::<Vec<&'static [u64]>>())
        }
        17 => {
            let v: &'static Vec<Vec<i32>> = Box::leak(Box::new((0..n as i32).map(|i| vec![i, -i]).collect()));
            go!("&[i32]", v.iter().map(|s| s.as_slice()).collect::<Vec<&'static [i32]>>())
        }
        18 => {
            let v: &'static Vec<Vec<u16>> = Box::leak(Box::new((0..n).map(|i| vec![i as u16, (i >> 16) as u16, 9]).collect()));
            go!("&[u16]", v.iter().map(|s| s.as_slice()).collect::<Vec<&'static [u16]>>())
        }
        19 => {
            let v: &'static Vec<Vec<usize>> = Box::leak(Box::new((0..n).map(|i| vec![i]).collect()));
            go!("&[usize]", v.iter().map(|s| s.as_slice()).collect::<Vec<&'static [usize]>>())
        }
        20 => {
            let v: &'static Vec<Vec<u128>> = Box::leak(Box::new((0..n as u128).map(|i| vec![i << 70 | i]).collect()));
            go!("&[u128]", v.iter().map(|s| s.as_slice()).collect::<Vec<&'static [u128]>>())
        }
        _ => {
            let v: &'static Vec<Vec<i8>> = Box::leak(Box::new((0..n).map(|i| vec![i as i8, (i >> 8) as i8, (i >> 16) as i8]).collect()));
            go!("&[i8]", v.iter().map(|s| s.as_slice()).collect::<Vec<&'static [i8]>>())
        }
    }
}

impl Property for C07 {
    fn id(&self) -> &'static str {
        "C07"
    }
    fn plan(&self, tier: Tier) -> Vec<Segment> {
        vec![
            // every n in 0..=130 under the default configuration, on every row of the type table
            Segment::enumerated("every-n<=130-default-config", 131 * N_ROWS as u64 * tier.pick(1, 3), &[2]),
            Segment::random("random-configs-n<=3000", tier.pick(3_000, 40_000), &[0], 24, 120),
            Segment::random("regime-switches", tier.pick(64, 800), &[1], 24, 120),
            // the pure peeling regimes of the fuse logics (no lazy Gaussian elimination above 800000 keys; expansion
            // factor switches at 5, 10 and 20 million keys; sharded peeling from 20 million keys)
            Segment::enumerated("peeling-regimes", tier.pick(10, 48), &[3]),
            // every key type with a ToSig implementation x {sharded size, small} x {128-bit, 64-bit signatures}
            Segment::enumerated("every-key-type", 22 * 4, &[4]),
        ]
    }
    fn watchdog_s(&self) -> u64 {
        300
    }
    fn deadlock_is_violation(&self) -> bool {
        // "the call always terminates" is part of the statement
        true
    }
    fn rule(&self) -> &'static str {
        "case = (row of a 20-row table of (key type in usize/u64/u8/String/str, value word u8..usize, backend Box<[W]>/BitFieldVec<W>, signature 64/128 bits, one of the 5 shard/edge logics), n, key style (dense/strided/permuted, prefix families, unicode), value kind (identity, all zero, all ones, uniform b-bit, one outlier), configuration (offline, low_mem, threads in 1..16, eps, log2_buckets, seed, expected_num_keys absent/exact/half/double/zero/another sharding regime, check_dups), optionally a second configuration) decoded from bytes; plus the enumeration of every n in 0..=130 on every table row with the default configuration; plus sizes around the 100k/200k/400k/800k/1.7M regime switches; plus an enumerated segment of builds in the pure peeling regimes (800001 keys on the sharded logics, and 400000/799999/800000 keys where unbalanced shards are frequent, 100001..150001 on FuseLge3NoShards, 10^6, 2.5*10^6; thorough also 5*10^6+-1, 10^7(+1), 2*10^7+1 and 2.05*10^7 keys: every expansion-factor bracket and sharded peeling) with low/high-memory peeling, 1..16 threads, on- and off-line stores. Plus one build per key type with a ToSig implementation (String, &String, &str, the twelve primitive integers, slices of seven element types) at 100003 keys (sharded) and 1000 keys, with 128- and 64-bit signatures. Keys come from a harness lender that counts passes and fails its 65th rewind (deterministic termination bound). Oracle = the input pairs: Ok, len()==n, get(k_i)==v_i for all i, get_unaligned where the width is admissible, agreement between configurations. Non-trivial: n>=1; distinct = distinct hash of the decoded spec."
    }
    fn run(&self, data: &[u8], cx: &mut Ctx) -> R {
        let (mode, rest) = data.split_first().unwrap_or((&0, &[]));
        let spec = if *mode == 2 {
            let mut b = [0u8; 8];
            b[..rest.len().min(8)].copy_from_slice(&rest[..rest.len().min(8)]);
            let j = u64::from_le_bytes(b);
            let n = (j % 131) as usize;
            let row = ((j / 131) % N_ROWS as u64) as u8;
            let rep = j / 131 / N_ROWS as u64;
            let mut cfg = Cfg::default();
            cfg.seed = rep;
            if rep == 1 {
                cfg.hint = Hint::Exact;
            } else if rep == 2 {
                cfg.offline = true;
                cfg.threads = 1;
            }
            cx.label("enumerated-n");
            Spec { row, n, key_style: 0, val_kind: (j % 6) as u8, val_bits: 1 + (j % 64) as u32, cfg, cfg2: None }
        } else if *mode == 4 {
            let mut b = [0u8; 8];
            b[..rest.len().min(8)].copy_from_slice(&rest[..rest.len().min(8)]);
            return key_type_case(cx, u64::from_le_bytes(b));
        } else if *mode == 3 {
            let mut b = [0u8; 8];
            b[..rest.len().min(8)].copy_from_slice(&rest[..rest.len().min(8)]);
            cx.label("peeling-regime");
            peeling_spec(u64::from_le_bytes(b) as usize)
        } else {
            let mut u = Unstructured::new(rest);
            decode_spec(&mut u, *mode, cx.tier)
        };
        cx.hash(&spec);
        cx.describe(|| format!("{:?}", spec));
        with_row!(spec.row, |K, W, D, S, E| run_spec::<K, W, D, S, E>(cx, &spec))
    }
}
