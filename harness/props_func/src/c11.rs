//! C11 — every structure stays within its documented space overhead, for every input.

use crate::c07::{gen_keys, gen_values, TWord};
use crate::fb::*;
use crate::with_row;
use engine::*;
use mem_dbg::{MemSize, SizeFlags};
use std::sync::{Arc, Mutex};
use sux::bits::{BitFieldVec, BitVec};
use sux::dict::elias_fano::EliasFanoBuilder;
use sux::func::shard_edge::*;
use sux::rank_sel::*;
use sux::traits::{BitFieldSlice, BitFieldSliceCore};
use sux::utils::{Sig, ToSig};

pub struct C11;

fn ms<T: MemSize>(t: &T) -> usize {
    t.mem_size(SizeFlags::default())
}

// ---- (1a) rank / select structures ------------------------------------------

fn rank_select_case(cx: &mut Ctx, u: &mut Unstructured) -> R {
    let cap = cx.tier.pick(1 << 20, 1 << 24);
    let len = match u.int_in_range(0u8..=5).unwrap_or(3) {
        0 => u.int_in_range(0usize..=600).unwrap_or(0),
        1 => len_class(u, 70_000),
        _ => len_class(u, cap),
    };
    let density = [0.5f64, 0.01, 0.99, 0.0, 1.0, 0.1, 0.001][u.int_in_range(0usize..=6).unwrap_or(0)];
    let seed: u64 = u.arbitrary().unwrap_or(1);
    cx.hash(&("ranksel", len, density.to_bits(), seed));
    cx.describe(|| format!("rank/select structures over {len} bits, density {density}, seed {seed}"));
    cx.label("rank/select");
    cx.nontrivial_if(len >= 4096);
    let mut x = seed | 1;
    let mut words = vec![0usize; len.div_ceil(64)];
    for w in words.iter_mut() {
        let mut v = 0usize;
        if density == 1.0 {
            v = !0;
        } else if density == 0.5 {
            x ^= x << 13;
            x ^= x >> 7;
            x ^= x << 17;
            v = x as usize;
        } else if density > 0.0 {
            for b in 0..64 {
                x ^= x << 13;
                x ^= x >> 7;
                x ^= x << 17;
                if ((x >> 11) as f64 / (1u64 << 53) as f64) < density {
                    v |= 1 << b;
                }
            }
        }
        *w = v;
    }
    if len % 64 != 0 {
        let l = words.len();
        words[l - 1] &= (1usize << (len % 64)) - 1;
    }
    let bv = unsafe { BitVec::from_raw_parts(words, len) };
    let b_bytes = len.div_ceil(64) * 8;
    let base = ms(&bv);
    cx.check_eq(base - std::mem::size_of::<BitVec>(), b_bytes, "bitvec.size", || format!("mem_size of a BitVec of {len} bits minus size_of"))?;
    let bf = b_bytes as f64;
    macro_rules! over {
        ($name:expr, $s:expr, $frac:expr, $add:expr) => {{
            let s = cx.must($name, || $s)?;
            let o = ms(&s) - base;
            let bound = $frac * bf + $add as f64;
            cx.check((o as f64) <= bound, "rank_select.space", || format!("{}: {o} bytes on top of a {b_bytes}-byte bit vector ({len} bits, density {density}); documented bound {:.4} x B + {} = {bound:.0}", $name, $frac, $add))?;
            s
        }};
    }
    let upper = 8 * len.div_ceil(1 << 32);
    let r9 = over!("Rank9", Rank9::new(bv.clone()), 0.25, 128);
    let r9_total = ms(&r9);
    over!("RankSmall<2,9>", RankSmall::<2, 9>::new(bv.clone()), 0.1875, 64 + upper);
    over!("RankSmall<1,9>", RankSmall::<1, 9>::new(bv.clone()), 0.125, 64 + upper);
    over!("RankSmall<1,10>", RankSmall::<1, 10>::new(bv.clone()), 0.0625, 64 + upper);
    over!("RankSmall<1,11>", RankSmall::<1, 11>::new(bv.clone()), 0.03125, 64 + upper);
    over!("RankSmall<3,13>", RankSmall::<3, 13>::new(bv.clone()), 0.015625, 64 + upper);
    let s9 = cx.must("Select9", || Select9::new(r9))?;
    let o = ms(&s9) - r9_total;
    let bound = 0.375 * bf + 128.0;
    cx.check((o as f64) <= bound, "select9.space", || format!("Select9: {o} bytes on top of Rank9 for a {b_bytes}-byte bit vector ({len} bits, density {density}); documented bound 0.375 x B + 128 = {bound:.0}"))?;
    Ok(())
}

// ---- (1b) Elias-Fano ---------------------------------------------------------

fn elias_fano_case(cx: &mut Ctx, u: &mut Unstructured) -> R {
    let n = match u.int_in_range(0u8..=5).unwrap_or(3) {
        0 => u.int_in_range(0usize..=50).unwrap_or(1),
        1 => u.int_in_range(0usize..=5000).unwrap_or(1000),
        _ => u.int_in_range(1000usize..=cx.tier.pick(200_000, 2_000_000)).unwrap_or(20_000),
    };
    // u/n ratio classes: below 1, inside (1,2), (3,4), near powers of two, large
    let num: u64 = u.arbitrary::<u32>().unwrap_or(12345) as u64;
    let uu: usize = match u.int_in_range(0u8..=9).unwrap_or(1) {
        0 => (n as u64 * (num % 1000) / 1000) as usize,                            // u < n
        1 => n + (n as u64 * (num % 999 + 1) / 1000) as usize,                      // n < u < 2n
        2 => 3 * n + (n as u64 * (num % 999 + 1) / 1000) as usize,                  // 3n < u < 4n
        3 => {
            let k = (num % 30) as u32;
            (n << k) + (num % 3) as usize                                            // n 2^k + {0,1,2}
        }
        4 => {
            let k = 1 + (num % 30) as u32;
            (n << k).saturating_sub(1 + (num % 2) as usize)                          // n 2^k - {1,2}
        }
        5 => n,
        6 => n.saturating_mul(1 + (num % 100_000) as usize),
        7 => 7 * n + (n as u64 * (num % 999 + 1) / 1000) as usize,                  // 7n < u < 8n
        _ => n + (num as usize % (n * 40 + 1)),
    };
    cx.hash(&("ef", n, uu));
    cx.describe(|| format!("Elias-Fano without selection indices: n={n} u={uu}"));
    cx.label("elias_fano");
    cx.nontrivial_if(n >= 1000);
    cx.label_if(n > 0 && uu > n && uu < 2 * n, "n<u<2n");
    cx.label_if(uu < n, "u<n");
    let mut b = cx.must("EliasFanoBuilder::new", || EliasFanoBuilder::new(n, uu))?;
    // values spread over [0, u]
    cx.must("push", || {
        for i in 0..n {
            b.push(((i as u128 * uu as u128) / n.max(1) as u128) as usize);
        }
    })?;
    let ef = cx.must("build", || b.build())?;
    let size = ms(&ef);
    let lg = if n > 0 && uu > n { (uu as f64 / n as f64).log2() } else { 0.0 };
    let bound_bits = n as f64 * (2.0 + lg.max(0.0));
    let bound = bound_bits / 8.0 + 160.0;
    cx.check((size as f64) <= bound, "ef.space", || format!("EliasFano(n={n}, u={uu}) takes {size} bytes = {:.3} bits/element; documented bound n(2+max(0,lg(u/n))) = {:.3} bits/element (+160 bytes)", size as f64 * 8.0 / n.max(1) as f64, bound_bits / n.max(1) as f64))?;
    Ok(())
}

// ---- (1c) plain vectors -------------------------------------------------------

fn vectors_case(cx: &mut Ctx, u: &mut Unstructured) -> R {
    let len = len_class(u, 5000);
    let width = u.int_in_range(0usize..=64).unwrap_or(7);
    let route = u.int_in_range(0u8..=4).unwrap_or(0);
    cx.hash(&("vec", len, width, route));
    cx.describe(|| format!("plain vectors: len={len} width={width} route={route}"));
    cx.label("vectors");
    cx.nontrivial_if(len >= 64);
    // BitVec: new / with_value / push / resize up
    let bv = cx.must("BitVec", || match route {
        0 => BitVec::new(len),
        1 => BitVec::with_value(len, true),
        2 => {
            let mut b = BitVec::new(0);
            for i in 0..len {
                b.push(i % 3 == 0);
            }
            b
        }
        3 => (0..len).map(|i| i % 5 == 0).collect(),
        _ => {
            let mut b = BitVec::new(len / 2);
            b.resize(len, true);
            b
        }
    })?;
    cx.check_eq(ms(&bv) - std::mem::size_of::<BitVec>(), len.div_ceil(64) * 8, "bitvec.size", || format!("BitVec of {len} bits built by route {route}"))?;
    macro_rules! bfv {
        ($w:ty) => {{
            let bits = <$w>::BITS as usize;
            let w = width.min(bits);
            let bytes = bits / 8;
            let exact = (len * w).div_ceil(bits);
            let v = cx.must("BitFieldVec", || match route {
                0 | 1 => BitFieldVec::<$w>::new(w, len),
                2 | 3 => {
                    let mut v = BitFieldVec::<$w>::new(w, 0);
                    for _ in 0..len {
                        v.push(0);
                    }
                    v
                }
                _ => {
                    let mut v = BitFieldVec::<$w>::new(w, len / 2);
                    v.resize(len, 0);
                    v
                }
            })?;
            cx.check_eq(BitFieldSliceCore::len(&v), len, "bfv.len", || "len".into())?;
            let got = ms(&v) - std::mem::size_of::<BitFieldVec<$w>>();
            cx.check_eq(got, exact.max(1) * bytes, "bfv.size", || format!("BitFieldVec<{}> of {len} x {w} bits built by route {route} (at least one word)", stringify!($w)))?;
            let vu = cx.must("new_unaligned", || BitFieldVec::<$w>::new_unaligned(w, len))?;
            let got = ms(&vu) - std::mem::size_of::<BitFieldVec<$w>>();
            cx.check_eq(got, (exact + 1) * bytes, "bfv.size", || format!("BitFieldVec<{}>::new_unaligned of {len} x {w} bits (one padding word)", stringify!($w)))?;
        }};
    }
    bfv!(u8);
    bfv!(u16);
    bfv!(u32);
    bfv!(u64);
    bfv!(usize);
    Ok(())
}

// ---- (1d) functions and filters, (2) formula sweep ---------------------------

/// Upper bound on the number of cells for `n` keys of a logic, from its
/// documentation: 1.23 n (1.135 n from 100000 keys) plus three segments per
/// shard; MWHC: 1.23 * 1.01 n plus three 128-vertex roundings per shard.
fn cell_bound(name: &str, n: usize, shards: usize, log2_seg: u32) -> f64 {
    if name.starts_with("Mwhc") {
        1.23 * 1.01 * n as f64 + (3 * 128 * 3 * shards) as f64 + 3.0
    } else {
        let c = if n >= 100_000 { 1.135 } else { 1.23 };
        c * n as f64 + (3usize * (1usize << log2_seg) * shards) as f64
    }
}

fn seg_log2_of<E: std::fmt::Display>(e: &E) -> u32 {
    let s = e.to_string();
    s.split("Segment size: 2^").nth(1).and_then(|r| r.split_whitespace().next()).and_then(|x| x.parse().ok()).unwrap_or(0)
}

fn sweep_logic<S: Sig, E: ShardEdge<S, 3>>(cx: &mut Ctx, name: &str, n: usize, eps: f64) -> R {
    let mut e = E::default();
    cx.must("set_up_shards", || e.set_up_shards(n, eps))?;
    let shards = e.num_shards();
    let lo = n.div_ceil(shards);
    let hi = ((1.01 * n as f64 / shards as f64).floor() as usize).min(n).max(lo);
    for m in [lo, hi] {
        let mut g = e;
        engine::take_panic();
        let r = std::panic::catch_unwind(std::panic::AssertUnwindSafe(|| g.set_up_graphs(n, m)));
        cx.ops(1);
        if r.is_err() {
            let (loc, msg) = engine::take_panic().unwrap_or_default();
            if n > 3_800_000_000 {
                cx.label("capacity_discard");
                continue;
            }
            return Err(Fail { class: Class::Panic, sig: loc.clone(), msg: format!("set_up_graphs: {name}.set_up_graphs({n}, {m}) panicked at {loc}: {msg}") });
        }
        let cells = g.num_vertices() as f64 * g.num_shards() as f64;
        let bound = cell_bound(name, n, g.num_shards(), seg_log2_of(&g));
        cx.check(cells <= bound, "func.space.formula", || format!("{name}: {cells} cells for n={n} (max shard {m}, {} shards, {g}) = {:.4} n; documented bound {:.4} n (1.23 n, 1.135 n from 100000 keys, + 3 segments per shard)", g.num_shards(), cells / n.max(1) as f64, bound / n.max(1) as f64))?;
    }
    Ok(())
}

fn sweep_all(cx: &mut Ctx, n: usize, eps: f64) -> R {
    sweep_logic::<[u64; 2], FuseLge3Shards>(cx, "FuseLge3Shards", n, eps)?;
    sweep_logic::<[u64; 2], FuseLge3NoShards>(cx, "FuseLge3NoShards", n, eps)?;
    sweep_logic::<[u64; 1], FuseLge3NoShards>(cx, "FuseLge3NoShards<[u64;1]>", n, eps)?;
    sweep_logic::<[u64; 2], FuseLge3FullSigs>(cx, "FuseLge3FullSigs", n, eps)?;
    sweep_logic::<[u64; 2], Mwhc3Shards>(cx, "Mwhc3Shards", n, eps)?;
    sweep_logic::<[u64; 2], Mwhc3NoShards>(cx, "Mwhc3NoShards", n, eps)
}

fn built_func<K: KeySrc, W: TWord, D, S: Sig + Send + Sync, E: ShardEdge<S, 3>>(cx: &mut Ctx, n: usize, val_bits: u32, cfg: &Cfg, filter: bool, bits_sel: u8) -> R
where
    D: FuncBuild<K, W, S, E> + FilterBuild<K, W, S, E> + BitFieldSlice<W> + MemSize,
    K::T: ToSig<S>,
    u64: common_traits::CastableInto<W>,
    sux::func::VFunc<K::T, W, D, S, E>: MemSize,
    sux::dict::VFilter<W, sux::func::VFunc<K::T, W, D, S, E>>: MemSize,
{
    let n = n.min(K::MAX);
    let logic = logic_name::<S, E>();
    cx.label(logic);
    if mwhc_never_converges(logic, n) && cx.excluded(KF_MWHC) {
        return Ok(());
    }
    let keys = Arc::new(gen_keys::<K>(n, 0));
    let is_bfv = <D as FilterBuild<K, W, S, E>>::IS_BFV;
    let (size, b) = if filter {
        let bits = crate::c08::pick_bits(bits_sel, W::WBITS as usize, is_bfv);
        let f = crate::c08::build_filter_and_verify::<K, W, D, S, E>(cx, cfg, &keys, bits)?;
        (ms(&f), bits)
    } else {
        // the value source is longer than the key source in half of the cases (legal: the crate's tests pass `0..`);
        // the surplus values are larger than every used one and must not widen the cells
        let mut values = gen_values::<W>(n, 3, val_bits);
        let surplus = [0usize, 1, 0, 2][(cfg.seed % 4) as usize];
        for _ in 0..surplus {
            values.push(W::from64(u64::MAX));
        }
        cx.label_if(surplus > 0, "surplus_values");
        let values = Arc::new(values);
        let klog = Arc::new(Mutex::new(Log::default()));
        let kl = K::lender(keys.clone(), Fault::None, klog);
        let vl = PlanLender::new(values.clone(), Fault::None, "values", Arc::new(Mutex::new(Log::default())));
        let f = match cx.must("try_build_func", || <D as FuncBuild<K, W, S, E>>::build(cfg, n, kl, vl))? {
            Ok(f) => f,
            Err(e) => return Err(Fail::mismatch("build.err", format!("build.err: {e:#}"))),
        };
        let maxv = values[..n].iter().map(|v| v.to64()).max().unwrap_or(0);
        let b = if is_bfv { ((64 - maxv.leading_zeros()) as usize).max(1) } else { W::WBITS as usize };
        (ms(&f), b)
    };
    // the bound: cells from the logic's own set-up for this n (largest admissible max shard)
    let mut e = E::default();
    e.set_up_shards(n, EPS[cfg.eps_idx as usize % 3]);
    let shards = e.num_shards();
    let hi = ((1.01 * n as f64 / shards as f64).floor() as usize).min(n).max(n.div_ceil(shards));
    e.set_up_graphs(n, hi);
    let cells = cell_bound(logic, n, shards, seg_log2_of(&e));
    let bound = cells * b as f64 / 8.0 + 200.0 + if is_bfv { (W::WBITS / 8 * 2) as f64 } else { 0.0 };
    cx.label_if(n >= 100_000, "n>=100k");
    cx.check((size as f64) <= bound, "func.space", || format!("{} over {n} keys with {b}-bit values takes {size} bytes = {:.4} n b bits; documented bound {:.4} n b bits (+ 3 segments per shard + 200 bytes) [logic {logic}, backend {}]", if filter { "filter" } else { "function" }, size as f64 * 8.0 / (n.max(1) * b) as f64, cells / n.max(1) as f64, if is_bfv { "BitFieldVec" } else { "Box" }))?;
    Ok(())
}

impl Property for C11 {
    fn id(&self) -> &'static str {
        "C11"
    }
    fn plan(&self, tier: Tier) -> Vec<Segment> {
        vec![
            // (2) every n below 300000 (thorough: 2000000), blocks of 1000
            Segment::enumerated("formula-sweep-every-n", tier.pick(300, 2000), &[4]),
            Segment::random("formula-sweep-log-uniform", tier.pick(20_000, 1_000_000), &[5], 16, 40),
            Segment::random("rank-select", tier.pick(600, 8_000), &[0], 16, 40),
            Segment::random("elias-fano", tier.pick(3_000, 60_000), &[1], 16, 40),
            Segment::random("plain-vectors", tier.pick(3_000, 60_000), &[2], 16, 40),
            Segment::random("built-functions-filters", tier.pick(1_500, 20_000), &[3], 24, 100),
            Segment::random("built-functions-filters-large", tier.pick(40, 600), &[6], 24, 100),
        ]
    }
    fn watchdog_s(&self) -> u64 {
        300
    }
    fn rule(&self) -> &'static str {
        "sizes read through mem_size(SizeFlags::default()) (length, not capacity, of backing vectors). Cases decoded from bytes: (a) bit vectors of generated length (up to 2^20, thorough 2^24) and density {0, .001, .01, .1, .5, .99, 1}: Rank9 <= 0.25 B + 128, RankSmall variants <= {18.75, 12.5, 6.25, 3.125, 1.5625}% B + 64 + 8 ceil(len/2^32), Select9 <= 0.375 B + 128 on top of Rank9 (B = bytes of the words); (b) Elias-Fano from EliasFanoBuilder::build over (n,u) with u/n below 1, inside (1,2), (3,4), (7,8), at n 2^k +-{0,1,2} and large: bytes <= n(2+max(0,lg(u/n)))/8 + 160; (c) BitVec / BitFieldVec<u8..usize> built by new/with_value/push/collect/resize-up: exactly ceil(len*w/BITS) words (at least one for BitFieldVec, plus one for new_unaligned); (d) functions and filters built on the 20-row type table: bytes <= cells*b/8 + 200 with cells <= 1.23 n (1.135 n from 100000 keys) + 3 segments per shard, MWHC held to 1.23*1.01 n + 3*128*3 per shard; (e) formula sweep through the public ShardEdge API for the six logics at EVERY n below 300000 (thorough 2000000) and log-uniform n up to 10^12, both extreme admissible maximum shards. Non-trivial: inputs >= 4096 bits / n >= 1000; distinct = distinct hash of the decoded case."
    }
    fn run(&self, data: &[u8], cx: &mut Ctx) -> R {
        let (mode, rest) = data.split_first().unwrap_or((&0, &[]));
        let mut u = Unstructured::new(rest);
        match *mode {
            0 => rank_select_case(cx, &mut u),
            1 => elias_fano_case(cx, &mut u),
            2 => vectors_case(cx, &mut u),
            4 => {
                let mut b = [0u8; 8];
                b[..rest.len().min(8)].copy_from_slice(&rest[..rest.len().min(8)]);
                let blk = u64::from_le_bytes(b) as usize;
                cx.hash(&("sweep", blk));
                cx.describe(|| format!("formula sweep: every n in {}..{} x eps in {{0.001, 0.1}} x 6 logics", blk * 1000, blk * 1000 + 1000));
                cx.label("formula-sweep");
                cx.nontrivial_if(blk >= 1);
                for n in blk * 1000..blk * 1000 + 1000 {
                    sweep_all(cx, n, 0.001)?;
                    if n % 7 == 0 {
                        sweep_all(cx, n, 0.1)?;
                    }
                }
                Ok(())
            }
            5 => {
                let n = crate::c16::n_class(&mut u);
                let eps: f64 = [0.001, 0.01, 0.1, 0.0001][u.int_in_range(0usize..=3).unwrap_or(0)];
                cx.hash(&("sweep1", n, eps.to_bits()));
                cx.describe(|| format!("formula sweep: n={n} eps={eps} x 6 logics"));
                cx.label("formula-sweep");
                cx.nontrivial_if(n >= 1000);
                sweep_all(cx, n, eps)
            }
            m => {
                let row = u.int_in_range(0u8..=N_ROWS - 1).unwrap_or(0);
                let n = if m == 6 {
                    [100_000usize, 100_001, 150_000, 250_000, 99_999, 420_000, 131_072][u.int_in_range(0usize..=6).unwrap_or(0)]
                } else {
                    match u.int_in_range(0u8..=3).unwrap_or(2) {
                        0 => u.int_in_range(0usize..=200).unwrap_or(10),
                        _ => u.int_in_range(1000usize..=20_000).unwrap_or(3000),
                    }
                };
                let filter = u.arbitrary().unwrap_or(false);
                let val_bits = u.int_in_range(1u32..=64).unwrap_or(9);
                let bits_sel: u8 = u.arbitrary().unwrap_or(3);
                let mut cfg = Cfg::decode(&mut u);
                cfg.check_dups = false;
                cx.hash(&("built", row, n, filter, val_bits, bits_sel, &cfg));
                cx.describe(|| format!("built {}: row={row} n={n} val_bits={val_bits} bits_sel={bits_sel} {cfg:?}", if filter { "filter" } else { "function" }));
                cx.label(if filter { "built-filter" } else { "built-function" });
                cx.nontrivial_if(n >= 1000);
                with_row!(row, |K, W, D, S, E| built_func::<K, W, D, S, E>(cx, n, val_bits, &cfg, filter, bits_sel))
            }
        }
    }
}
