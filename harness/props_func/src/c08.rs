//! C08 — a static filter has no false negatives and a false-positive rate near 2^-b.

use crate::c07::TWord;
use crate::fb::*;
use crate::with_row;
use common_traits::CastableInto;
use engine::*;
use std::sync::{Arc, Mutex};
use sux::dict::VFilter;
use sux::func::shard_edge::ShardEdge;
use sux::func::VFunc;
use sux::traits::BitFieldSlice;
use sux::utils::{Sig, ToSig};

pub struct C08;

#[derive(Clone, Debug, Hash)]
pub struct Spec {
    pub row: u8,
    pub n: usize,
    pub key_style: u8,
    pub bits_sel: u8,
    pub cfg: Cfg,
}

const B_CLASSES: [usize; 14] = [1, 2, 7, 8, 9, 31, 32, 33, 63, 64, 3, 12, 16, 5];

pub fn pick_bits(sel: u8, wbits: usize, is_bfv: bool) -> usize {
    if !is_bfv {
        return wbits;
    }
    let admissible: Vec<usize> = B_CLASSES.iter().copied().filter(|b| *b <= wbits).collect();
    admissible[sel as usize % admissible.len()]
}

/// Builds a filter and checks membership of every inserted key.
pub fn build_filter_and_verify<K: KeySrc, W: TWord, D, S: Sig + Send + Sync, E: ShardEdge<S, 3>>(cx: &mut Ctx, cfg: &Cfg, keys: &Arc<Vec<K::Owned>>, bits: usize) -> R<VFilter<W, VFunc<K::T, W, D, S, E>>>
where
    D: FilterBuild<K, W, S, E> + BitFieldSlice<W>,
    K::T: ToSig<S>,
    u64: CastableInto<W>,
{
    let n = keys.len();
    let klog = Arc::new(Mutex::new(Log::default()));
    let kl = K::lender(keys.clone(), Fault::None, klog.clone());
    let r = cx.must("try_build_filter", || D::build_filter(cfg, n, kl, bits))?;
    let f = match r {
        Ok(f) => f,
        Err(e) => {
            if klog.lock().unwrap().too_many {
                return Err(Fail::nonconv("attempt-bound", format!("attempt-bound: try_build_filter did not converge within {} attempts on {n} distinct keys (logic {}, {cfg:?})", max_rewinds(n), logic_name::<S, E>())));
            }
            return Err(Fail::mismatch("build.err", format!("build.err: try_build_filter failed on {n} distinct keys: {e:#} ({cfg:?})")));
        }
    };
    let l = cx.must("len", || f.len())?;
    cx.check_eq(l, n, "len", || format!("filter.len() ({cfg:?})"))?;
    let e = cx.must("is_empty", || f.is_empty())?;
    cx.check_eq(e, n == 0, "is_empty", || "filter.is_empty()".into())?;
    let hb = cx.must("hash_bits", || f.hash_bits())?;
    cx.check_eq(hb as usize, bits, "hash_bits", || "filter.hash_bits()".into())?;
    // no false negatives
    let mut missing = 0usize;
    let mut first = None;
    cx.ops(2 * n as u64);
    let res = std::panic::catch_unwind(std::panic::AssertUnwindSafe(|| {
        for i in 0..n {
            let a = f.contains(K::as_t(&keys[i]));
            let b = f[K::as_t(&keys[i])];
            if !a || !b {
                missing += 1;
                if first.is_none() {
                    first = Some((i, a, b));
                }
            }
        }
    }));
    if res.is_err() {
        let (loc, msg) = engine::take_panic().unwrap_or_default();
        return Err(Fail { class: Class::Panic, sig: loc.clone(), msg: format!("contains: filter.contains() panicked at {loc}: {msg}") });
    }
    if let Some((i, a, b)) = first {
        return Err(Fail::mismatch("false_negative", format!("false_negative: {missing} of {n} inserted keys are not found; first: key #{i} {:?} contains={a} index={b} (b={bits}, logic {}, {cfg:?})", keys[i], logic_name::<S, E>())));
    }
    Ok(f)
}

fn run_spec<K: KeySrc, W: TWord, D, S: Sig + Send + Sync, E: ShardEdge<S, 3>>(cx: &mut Ctx, spec: &Spec) -> R
where
    D: FilterBuild<K, W, S, E> + BitFieldSlice<W>,
    K::T: ToSig<S>,
    u64: CastableInto<W>,
{
    let n = spec.n.min(K::MAX);
    let bits = pick_bits(spec.bits_sel, W::WBITS as usize, D::IS_BFV);
    cx.label(&format!("key:{}", K::NAME));
    cx.label(logic_name::<S, E>());
    cx.label(&format!("b={bits}"));
    cx.label(if D::IS_BFV { "backend:BitFieldVec" } else { "backend:Box" });
    spec.cfg.label(cx, n);
    if mwhc_never_converges(logic_name::<S, E>(), n) && cx.excluded(KF_MWHC) {
        return Ok(());
    }
    let keys = Arc::new((0..n).map(|i| K::member(i, spec.key_style)).collect::<Vec<_>>());
    let f = build_filter_and_verify::<K, W, D, S, E>(cx, &spec.cfg, &keys, bits)?;
    // false-positive rate on a structurally disjoint probe family
    let p = 0.5f64.powi(bits as i32);
    let want_probes = if K::MAX <= 128 {
        128
    } else if bits <= 8 {
        20_000
    } else if bits <= 12 {
        50 << bits
    } else {
        20_000
    };
    let mut positives = 0usize;
    cx.ops(want_probes as u64);
    let res = std::panic::catch_unwind(std::panic::AssertUnwindSafe(|| {
        for i in 0..want_probes {
            let q = K::probe(i, spec.key_style);
            positives += f.contains(K::as_t(&q)) as usize;
        }
    }));
    if res.is_err() {
        let (loc, msg) = engine::take_panic().unwrap_or_default();
        return Err(Fail { class: Class::Panic, sig: loc.clone(), msg: format!("contains(non-member): panicked at {loc}: {msg}") });
    }
    let nn = want_probes as f64;
    let mean = nn * p;
    let tol = 7.0 * (nn * p * (1.0 - p)).sqrt() + 4.0;
    cx.nontrivial_if(n >= 1 && want_probes >= 10_000);
    // with no keys every cell is zero: the "rate" is not defined by 2^-b (the property speaks of filters over key sets); skip n == 0
    if n >= 1 {
        cx.check((positives as f64) <= mean + tol, "fpr.high", || format!("{positives} false positives among {want_probes} non-members, expected about {mean:.1} (+-{tol:.1}) for b={bits} (n={n}, logic {}, key {})", logic_name::<S, E>(), K::NAME))?;
        if mean >= 50.0 {
            cx.label("rate_two_sided");
            cx.check((positives as f64) >= mean - tol, "fpr.low", || format!("only {positives} false positives among {want_probes} non-members, expected about {mean:.1} (+-{tol:.1}) for b={bits} (n={n}, logic {})", logic_name::<S, E>()))?;
        }
    }
    D::filter_extra(cx, &f, &keys, bits)?;
    Ok(())
}

impl Property for C08 {
    fn id(&self) -> &'static str {
        "C08"
    }
    fn plan(&self, tier: Tier) -> Vec<Segment> {
        vec![
            Segment::enumerated("every-n<=60-every-row", 61 * N_ROWS as u64, &[2]),
            Segment::random("random-configs-n<=3000", tier.pick(2_000, 30_000), &[0], 24, 100),
            Segment::random("regime-switches", tier.pick(32, 500), &[1], 24, 100),
            // pure peeling regimes of the fuse logics, low- and high-memory peelers (see c07::peeling_spec)
            Segment::enumerated("peeling-regimes", tier.pick(10, 48), &[3]),
        ]
    }
    fn watchdog_s(&self) -> u64 {
        300
    }
    fn rule(&self) -> &'static str {
        "case = (row of the 20-row builder type table, n, key style, hash width b = W::BITS for slice backends and b in {1,2,3,5,7,8,9,12,16,31,32,33,63,64} (<= W::BITS) for bit-field backends, configuration as in C07) decoded from bytes; plus every n in 0..=60 on every row; plus sizes around the regime switches; plus an enumerated segment of filters in the pure peeling regimes (800001 keys on the sharded logics, 100001..150001 on FuseLge3NoShards, 10^6..2*10^7 in the thorough tier) with the low- and high-memory peelers. Oracle: contains(k) and filter[k] true for every inserted key, len()==n, hash_bits()==b, contains_unaligned agrees where admissible; non-members are a structurally disjoint family (odd integers / 'q'-prefixed strings): the number of positives among N probes (N = 20000 for b<=8, 50*2^b for b<=12) must lie within N*2^-b +- (7*sqrt(N p (1-p)) + 4), two-sided when N*2^-b >= 50. Non-trivial: n>=1 and at least 10^4 probes; distinct = distinct hash of the decoded spec."
    }
    fn run(&self, data: &[u8], cx: &mut Ctx) -> R {
        let (mode, rest) = data.split_first().unwrap_or((&0, &[]));
        let spec = if *mode == 2 {
            let mut b = [0u8; 8];
            b[..rest.len().min(8)].copy_from_slice(&rest[..rest.len().min(8)]);
            let j = u64::from_le_bytes(b);
            cx.label("enumerated-n");
            Spec { row: ((j / 61) % N_ROWS as u64) as u8, n: (j % 61) as usize, key_style: 0, bits_sel: (j % 14) as u8, cfg: Cfg::default() }
        } else if *mode == 3 {
            let mut b = [0u8; 8];
            b[..rest.len().min(8)].copy_from_slice(&rest[..rest.len().min(8)]);
            // shifted by one against C07 so that the two properties pair sizes and peelers differently
            let s7 = crate::c07::peeling_spec(u64::from_le_bytes(b) as usize + 24 + 1);
            cx.label("peeling-regime");
            Spec { row: s7.row, n: s7.n, key_style: 0, bits_sel: (s7.val_bits % 14) as u8, cfg: s7.cfg }
        } else {
            let mut u = Unstructured::new(rest);
            let s7 = crate::c07::decode_spec(&mut u, *mode, cx.tier);
            Spec { row: s7.row, n: s7.n, key_style: s7.key_style, bits_sel: (s7.val_bits % 14) as u8, cfg: s7.cfg }
        };
        cx.hash(&spec);
        cx.describe(|| format!("{:?}", spec));
        with_row!(spec.row, |K, W, D, S, E| run_spec::<K, W, D, S, E>(cx, &spec))
    }
}
