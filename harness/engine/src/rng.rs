//! Deterministic byte generation: case `j` of segment `s` of property `p`
//! under seed `n` is a pure function of `(n, p, s, j)`.

use crate::{SegKind, Segment};

#[derive(Clone)]
pub struct Xo {
    s: [u64; 4],
}

fn splitmix(x: &mut u64) -> u64 {
    *x = x.wrapping_add(0x9E37_79B9_7F4A_7C15);
    let mut z = *x;
    z = (z ^ (z >> 30)).wrapping_mul(0xBF58_476D_1CE4_E5B9);
    z = (z ^ (z >> 27)).wrapping_mul(0x94D0_49BB_1331_11EB);
    z ^ (z >> 31)
}

impl Xo {
    pub fn new(seed: u64) -> Xo {
        let mut x = seed;
        Xo { s: [splitmix(&mut x), splitmix(&mut x), splitmix(&mut x), splitmix(&mut x)] }
    }
    pub fn next(&mut self) -> u64 {
        let r = self.s[1].wrapping_mul(5).rotate_left(7).wrapping_mul(9);
        let t = self.s[1] << 17;
        self.s[2] ^= self.s[0];
        self.s[3] ^= self.s[1];
        self.s[1] ^= self.s[2];
        self.s[0] ^= self.s[3];
        self.s[2] ^= t;
        self.s[3] = self.s[3].rotate_left(45);
        r
    }
    pub fn below(&mut self, n: u64) -> u64 {
        if n == 0 {
            0
        } else {
            ((self.next() as u128 * n as u128) >> 64) as u64
        }
    }
    pub fn fill(&mut self, out: &mut [u8]) {
        for c in out.chunks_mut(8) {
            let v = self.next().to_le_bytes();
            c.copy_from_slice(&v[..c.len()]);
        }
    }
}

fn fnv(s: &str) -> u64 {
    let mut h = 0xcbf29ce484222325u64;
    for b in s.bytes() {
        h ^= b as u64;
        h = h.wrapping_mul(0x100000001b3);
    }
    h
}

/// The bytes of case `j` of a segment.
pub fn case_bytes(seed: u64, prop: &str, seg_idx: usize, seg: &Segment, j: u64) -> Vec<u8> {
    let mut out = seg.prefix.clone();
    match seg.kind {
        SegKind::Enumerated => out.extend_from_slice(&j.to_le_bytes()),
        SegKind::Random { min_bytes, max_bytes } => {
            let mut k = seed ^ fnv(prop).rotate_left(17) ^ (seg_idx as u64).wrapping_mul(0xD6E8_FEB8_6659_FD93);
            let a = splitmix(&mut k);
            let mut r = Xo::new(a ^ j.wrapping_mul(0x9E37_79B9_7F4A_7C15));
            // size schedule: geometric classes between min and max, small
            // cases are as frequent as large ones
            let span = (max_bytes.max(min_bytes + 1) / min_bytes.max(1)).max(1) as f64;
            let steps = 8u64;
            let c = j % steps;
            let f = span.powf(c as f64 / (steps - 1) as f64);
            let hi = ((min_bytes.max(1) as f64) * f) as usize;
            let hi = hi.clamp(min_bytes, max_bytes);
            let len = min_bytes + r.below((hi - min_bytes + 1) as u64) as usize;
            let start = out.len();
            out.resize(start + len, 0);
            r.fill(&mut out[start..]);
            // sparsify some cases: runs of zero bytes decode to "simplest
            // choice", which reaches degenerate shapes uniform bytes rarely hit
            match r.below(8) {
                0 => {
                    for b in out[start..].iter_mut() {
                        if r.below(4) != 0 {
                            *b = 0;
                        }
                    }
                }
                1 => {
                    for b in out[start..].iter_mut() {
                        if r.below(3) == 0 {
                            *b = 0xFF;
                        }
                    }
                }
                2 => {
                    for b in out[start..].iter_mut() {
                        *b &= 0x0F;
                    }
                }
                _ => {}
            }
        }
    }
    out
}
