//! Worker process: reads commands on stdin, runs cases, reports on stdout.
//!
//! Protocol (one line each, fields separated by a single space unless noted):
//!   in : `gen <seg> <a> <b> <sample 0|1>`  run cases a..b of segment seg
//!        `case <describe 0|1> <hex>`        run one explicit case
//!        `quit`
//!   out: `S <seg> <j>`                      about to run that case
//!        `D <json string>`                  description of the decoded case
//!        `K <nt> <hash> <ops> <labels,> <excluded id:n,>`   case passed
//!        `F <class>\t<sig>\t<msg>`           case failed
//!        `E`                                 command finished

use crate::rng::case_bytes;
use crate::{install_panic_hook, unhex, Ctx, Fail, Property, Segment, Tier};
use std::collections::HashSet;
use std::io::{BufRead, Write};

pub struct WorkerCfg {
    pub tier: Tier,
    pub seed: u64,
    pub strict: bool,
    pub profile: String,
    pub known_open: HashSet<String>,
}

fn oneline(s: &str) -> String {
    s.replace(['\n', '\r', '\t'], " ")
}

fn run_one(prop: &dyn Property, cfg: &WorkerCfg, data: &[u8], describe: bool, out: &mut impl Write) -> (Result<(), Fail>, Vec<String>) {
    let mut cx = Ctx::new(cfg.strict, &cfg.profile, cfg.tier, &cfg.known_open, describe);
    if describe {
        // emit the description immediately, so it survives an abort
        cx.set_describe_sink(Box::new(|s: &str| {
            let so = std::io::stdout();
            let mut so = so.lock();
            let _ = writeln!(so, "D {}", serde_json::Value::String(s.to_string()));
            let _ = so.flush();
        }));
    }
    let res = {
        // a panic escaping the property itself (harness bug or library panic
        // outside `must`) is reported as a panic failure, never lost
        crate::take_panic();
        let r = std::panic::catch_unwind(std::panic::AssertUnwindSafe(|| prop.run(data, &mut cx)));
        match r {
            Ok(r) => r,
            Err(_) => {
                let (loc, msg) = crate::take_panic().unwrap_or_default();
                Err(Fail { class: crate::Class::Panic, sig: format!("escaped@{loc}"), msg: format!("panic outside an expectation at {loc}: {msg}") })
            }
        }
    };
    let rep = cx.finish(data);
    match &res {
        Ok(()) => {
            let ex: Vec<String> = rep.excluded.iter().map(|(k, v)| format!("{k}:{v}")).collect();
            let _ = writeln!(
                out,
                "K {} {:016x} {} {} {}",
                rep.nontrivial as u8,
                rep.hash,
                rep.ops,
                if rep.labels.is_empty() { "-".to_string() } else { rep.labels.join(",") },
                if ex.is_empty() { "-".to_string() } else { ex.join(",") }
            );
        }
        Err(f) => {
            let _ = writeln!(out, "F {}\t{}\t{}", f.class.name(), oneline(&f.sig), oneline(&f.msg));
        }
    }
    (res, rep.labels)
}

pub fn worker_main(prop: &dyn Property, cfg: WorkerCfg) {
    install_panic_hook();
    let plan: Vec<Segment> = prop.plan(cfg.tier);
    let stdin = std::io::stdin();
    let stdout = std::io::stdout();
    let mut seen_labels: HashSet<String> = HashSet::new();
    let mut label_samples = 0usize;
    for line in stdin.lock().lines() {
        let Ok(line) = line else { break };
        let mut it = line.split(' ');
        match it.next() {
            Some("gen") => {
                let seg: usize = it.next().and_then(|s| s.parse().ok()).unwrap_or(0);
                let a: u64 = it.next().and_then(|s| s.parse().ok()).unwrap_or(0);
                let b: u64 = it.next().and_then(|s| s.parse().ok()).unwrap_or(0);
                let sample: bool = it.next() == Some("1");
                for j in a..b {
                    let data = case_bytes(cfg.seed, prop.id(), seg, &plan[seg], j);
                    {
                        let mut so = stdout.lock();
                        let _ = writeln!(so, "S {seg} {j}");
                        let _ = so.flush();
                    }
                    let first = sample && j == a;
                    let mut buf: Vec<u8> = Vec::new();
                    let (res, labels) = run_one(prop, &cfg, &data, first, &mut buf);
                    // label-diverse samples: re-run (deterministic) with a
                    // description when the case shows a label not yet sampled
                    if res.is_ok() && !first && label_samples < 4 && labels.iter().any(|l| !seen_labels.contains(l)) {
                        label_samples += 1;
                        let mut sink = Vec::new();
                        let _ = run_one(prop, &cfg, &data, true, &mut sink);
                    }
                    for l in labels {
                        seen_labels.insert(l);
                    }
                    let mut so = stdout.lock();
                    let _ = so.write_all(&buf);
                    let _ = so.flush();
                }
            }
            Some("case") => {
                let describe = it.next() == Some("1");
                let data = it.next().and_then(unhex).unwrap_or_default();
                let mut buf: Vec<u8> = Vec::new();
                let _ = run_one(prop, &cfg, &data, describe, &mut buf);
                let mut so = stdout.lock();
                let _ = so.write_all(&buf);
            }
            Some("quit") | None => break,
            _ => {}
        }
        let mut so = stdout.lock();
        let _ = writeln!(so, "E");
        let _ = so.flush();
    }
}
