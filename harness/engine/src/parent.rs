//! Parent process: never touches the library under test. Distributes case
//! ranges to worker processes, classifies outcomes (including worker death),
//! shrinks failures at byte level and writes the run report.

use crate::rng::case_bytes;
use crate::{hex, unhex, Property, Segment, Tier};
use serde_json::{json, Value};
use std::collections::{BTreeMap, HashMap, HashSet, VecDeque};
use std::io::{BufRead, BufReader, Write};
use std::path::{Path, PathBuf};
use std::process::{Child, ChildStdin, ChildStdout, Command, Stdio};
use std::sync::atomic::{AtomicBool, AtomicU64, AtomicUsize, Ordering};
use std::sync::{Arc, Mutex};
use std::time::{Duration, Instant};

pub struct ParentArgs {
    pub tier: Tier,
    pub seed: u64,
    pub profile: String,
    pub worker_bin: PathBuf,
    pub jobs: usize,
    pub out_json: PathBuf,
    /// committed regression inputs: <replays_dir>/<id>/*.json
    pub replays_dir: PathBuf,
    /// where replays of new failures are written
    pub out_replays_dir: PathBuf,
    pub known_file: PathBuf,
    pub single_replay: Option<PathBuf>,
    /// run only the replay tier + known findings (no generation)
    pub replay_only: bool,
    /// multiply the case counts of random segments
    pub scale: f64,
}

#[derive(Clone, Debug)]
pub struct Outcome {
    pub ok: bool,
    pub class: String,
    pub sig: String,
    pub msg: String,
    pub nontrivial: bool,
    pub hash: u64,
    pub ops: u64,
    pub labels: Vec<String>,
    pub excluded: Vec<(String, u64)>,
    pub description: Option<String>,
    /// inconclusive: watchdog or out of memory
    pub inconclusive: Option<String>,
}

impl Outcome {
    fn blank() -> Outcome {
        Outcome { ok: false, class: String::new(), sig: String::new(), msg: String::new(), nontrivial: false, hash: 0, ops: 0, labels: vec![], excluded: vec![], description: None, inconclusive: None }
    }
}

struct Proc {
    child: Child,
    stdin: ChildStdin,
    stdout: BufReader<ChildStdout>,
    stderr_tail: Arc<Mutex<VecDeque<String>>>,
}

#[derive(Clone)]
struct Spawner {
    bin: PathBuf,
    prop: String,
    tier: Tier,
    seed: u64,
    profile: String,
    known: String,
}

impl Spawner {
    fn spawn(&self, strict: bool) -> Proc {
        let mut cmd = Command::new(&self.bin);
        cmd.arg("worker")
            .arg("--prop")
            .arg(&self.prop)
            .arg("--tier")
            .arg(self.tier.name())
            .arg("--seed")
            .arg(self.seed.to_string())
            .arg("--profile")
            .arg(&self.profile)
            .arg("--known")
            .arg(&self.known)
            .arg("--strict")
            .arg(if strict { "1" } else { "0" })
            .env("RUST_BACKTRACE", "0")
            .env("ASAN_OPTIONS", "detect_leaks=0:abort_on_error=0:allocator_may_return_null=1:symbolize=1")
            .stdin(Stdio::piped())
            .stdout(Stdio::piped())
            .stderr(Stdio::piped());
        let mut child = cmd.spawn().expect("cannot spawn worker");
        let stdin = child.stdin.take().unwrap();
        let stdout = BufReader::new(child.stdout.take().unwrap());
        let stderr = child.stderr.take().unwrap();
        let tail = Arc::new(Mutex::new(VecDeque::new()));
        let t2 = tail.clone();
        std::thread::spawn(move || {
            let r = BufReader::new(stderr);
            for l in r.lines() {
                let Ok(l) = l else { break };
                let mut g = t2.lock().unwrap();
                if g.len() >= 400 {
                    g.pop_front();
                }
                g.push_back(l);
            }
        });
        Proc { child, stdin, stdout, stderr_tail: tail }
    }
}

/// Seconds of complete quiescence (every thread of the worker in interruptible
/// sleep, not one CPU tick consumed) after which a worker that owes an answer
/// is declared deadlocked. This is a state criterion, not a time budget: a
/// busy or starved worker has runnable (R) or disk-wait (D) threads and keeps
/// consuming ticks, however slow the machine is.
const DEADLOCK_S: u64 = 12;
static DEADLOCK_IS_VIOLATION: AtomicBool = AtomicBool::new(false);

#[derive(Default)]
struct DeadlockProbe {
    last_ticks: u64,
    quiet_since: Option<Instant>,
    last_poll: Option<Instant>,
}

impl DeadlockProbe {
    /// Returns true when the process has been quiescent for DEADLOCK_S.
    fn poll(&mut self, pid: u32) -> bool {
        if let Some(t) = self.last_poll {
            if t.elapsed() < Duration::from_millis(1000) {
                return false;
            }
        }
        self.last_poll = Some(Instant::now());
        match quiescent_ticks(pid) {
            Some(t) if self.quiet_since.is_some() && t == self.last_ticks => self.quiet_since.unwrap().elapsed() >= Duration::from_secs(DEADLOCK_S),
            Some(t) => {
                self.last_ticks = t;
                self.quiet_since = Some(Instant::now());
                false
            }
            None => {
                self.quiet_since = None;
                false
            }
        }
    }
    fn reset(&mut self) {
        self.quiet_since = None;
    }
}

/// Total CPU ticks of the process if every live thread is in state S
/// (interruptible sleep: futex, pipe, condvar), None otherwise.
fn quiescent_ticks(pid: u32) -> Option<u64> {
    let mut ticks = 0u64;
    let mut n = 0;
    for e in std::fs::read_dir(format!("/proc/{pid}/task")).ok()? {
        let e = e.ok()?;
        let st = std::fs::read_to_string(e.path().join("stat")).ok()?;
        // pid (comm) state ... utime(14) stime(15)
        let rest = &st[st.rfind(')')? + 1..];
        let f: Vec<&str> = rest.split_whitespace().collect();
        match *f.first()? {
            "S" => {}
            "Z" | "X" => continue,
            _ => return None,
        }
        ticks += f.get(11)?.parse::<u64>().ok()? + f.get(12)?.parse::<u64>().ok()?;
        n += 1;
    }
    if n == 0 {
        None
    } else {
        Some(ticks)
    }
}

/// Where the blocked threads of the library under test are (gdb, best effort).
fn blocked_frames(pid: u32) -> String {
    let out = Command::new("timeout").args(["40", "gdb", "-p", &pid.to_string(), "-batch", "-ex", "thread apply all bt 40"]).stdin(Stdio::null()).stderr(Stdio::null()).output();
    let Ok(out) = out else { return String::new() };
    let text = String::from_utf8_lossy(&out.stdout);
    let mut frames: Vec<String> = vec![];
    let mut seen_in_thread = false;
    for l in text.lines() {
        if l.starts_with("Thread ") {
            seen_in_thread = false;
        } else if !seen_in_thread {
            if let Some(i) = l.find("sux::") {
                let f = &l[i..];
                let f = f.split(" (").next().unwrap_or(f);
                let f = f.split("::h").next().unwrap_or(f);
                let f: String = f.trim().chars().take(100).collect();
                seen_in_thread = true;
                if !frames.contains(&f) {
                    frames.push(f);
                }
            }
        }
    }
    frames.sort();
    frames.truncate(4);
    frames.join(" | ")
}

/// Registry of running workers for the watchdog.
struct Watch {
    // slot -> (pid, start millis or 0)
    slots: Vec<(AtomicU64, AtomicU64)>,
    // 0 = not killed, 1 = watchdog, 2 = deadlock
    killed: Vec<AtomicU64>,
    frames: Vec<Mutex<String>>,
    t0: Instant,
}

impl Watch {
    fn new(n: usize) -> Watch {
        Watch { slots: (0..n).map(|_| (AtomicU64::new(0), AtomicU64::new(0))).collect(), killed: (0..n).map(|_| AtomicU64::new(0)).collect(), frames: (0..n).map(|_| Mutex::new(String::new())).collect(), t0: Instant::now() }
    }
    fn now(&self) -> u64 {
        self.t0.elapsed().as_millis() as u64 + 1
    }
    fn begin(&self, slot: usize, pid: u32) {
        self.slots[slot].0.store(pid as u64, Ordering::SeqCst);
        self.slots[slot].1.store(self.now(), Ordering::SeqCst);
    }
    fn end(&self, slot: usize) {
        self.slots[slot].1.store(0, Ordering::SeqCst);
    }
    fn was_killed(&self, slot: usize) -> Kill {
        match self.killed[slot].swap(0, Ordering::SeqCst) {
            0 => Kill::No,
            1 => Kill::Watchdog,
            _ => Kill::Deadlock(std::mem::take(&mut *self.frames[slot].lock().unwrap())),
        }
    }
    fn monitor(self: Arc<Self>, limit_s: u64, stop: Arc<AtomicBool>) {
        let mut probes: Vec<(u64, DeadlockProbe)> = (0..self.slots.len()).map(|_| (0, DeadlockProbe::default())).collect();
        while !stop.load(Ordering::SeqCst) {
            std::thread::sleep(Duration::from_millis(250));
            let now = self.now();
            for (i, (pid, st)) in self.slots.iter().enumerate() {
                let s = st.load(Ordering::SeqCst);
                let p = pid.load(Ordering::SeqCst);
                if s == 0 || p == 0 {
                    probes[i].1.reset();
                    continue;
                }
                if probes[i].0 != s {
                    // a new case started
                    probes[i] = (s, DeadlockProbe::default());
                }
                if probes[i].1.poll(p as u32) {
                    *self.frames[i].lock().unwrap() = blocked_frames(p as u32);
                    self.killed[i].store(2, Ordering::SeqCst);
                    unsafe {
                        libc::kill(p as i32, libc::SIGKILL);
                    }
                    st.store(0, Ordering::SeqCst);
                    continue;
                }
                if now.saturating_sub(s) > limit_s * 1000 {
                    if p != 0 {
                        self.killed[i].store(1, Ordering::SeqCst);
                        unsafe {
                            libc::kill(p as i32, libc::SIGKILL);
                        }
                        st.store(0, Ordering::SeqCst);
                    }
                }
            }
        }
    }
}

fn parse_k(line: &str, o: &mut Outcome) {
    // K <nt> <hash> <ops> <labels> <excluded>
    let mut it = line.split(' ');
    it.next();
    o.ok = true;
    o.nontrivial = it.next() == Some("1");
    o.hash = it.next().and_then(|h| u64::from_str_radix(h, 16).ok()).unwrap_or(0);
    o.ops = it.next().and_then(|h| h.parse().ok()).unwrap_or(0);
    if let Some(l) = it.next() {
        if l != "-" {
            o.labels = l.split(',').map(|s| s.to_string()).collect();
        }
    }
    if let Some(l) = it.next() {
        if l != "-" {
            for kv in l.split(',') {
                if let Some((k, v)) = kv.rsplit_once(':') {
                    o.excluded.push((k.to_string(), v.parse().unwrap_or(0)));
                }
            }
        }
    }
}

fn parse_f(line: &str, o: &mut Outcome) {
    let mut it = line[2..].splitn(3, '\t');
    o.ok = false;
    o.class = it.next().unwrap_or("").to_string();
    o.sig = it.next().unwrap_or("").to_string();
    o.msg = it.next().unwrap_or("").to_string();
}

/// Why the parent killed a worker.
enum Kill {
    No,
    Watchdog,
    Deadlock(String),
}

/// Build the outcome for a dead worker from its exit status and stderr.
fn death_outcome(p: &mut Proc, kill: Kill, desc: Option<String>) -> Outcome {
    let status = p.child.wait().ok();
    // give the stderr thread a moment to drain
    std::thread::sleep(Duration::from_millis(30));
    let tail: Vec<String> = p.stderr_tail.lock().unwrap().iter().cloned().collect();
    let mut o = Outcome::blank();
    o.description = desc;
    match kill {
        Kill::No => {}
        Kill::Watchdog => {
            o.inconclusive = Some("watchdog".into());
            o.class = "timeout".into();
            return o;
        }
        Kill::Deadlock(frames) => {
            o.class = "deadlock".into();
            o.sig = format!("deadlock@{}", frames.split(" | ").next().unwrap_or(""));
            o.msg = format!("the call never returned: every thread of the worker was blocked (state S) and the process consumed no CPU tick for {DEADLOCK_S} s; blocked in [{frames}]");
            if !DEADLOCK_IS_VIOLATION.load(Ordering::SeqCst) {
                o.inconclusive = Some(format!("deadlock (not a subject of this property): {}", o.msg));
            }
            return o;
        }
    }
    let joined = tail.join("\n");
    // "memory allocation of N bytes failed": a request no machine could satisfy (>= 2^44 bytes) is a wrong size
    // computed by the code under test, not a shortage of memory on this machine
    let absurd = tail.iter().find_map(|l| {
        let i = l.find("memory allocation of ")?;
        let n: u128 = l[i + 21..].split_whitespace().next()?.parse().ok()?;
        (n >= 1u128 << 44).then_some(n)
    });
    if let Some(n) = absurd {
        let mut frame = String::new();
        for l in &tail {
            if let Some(i) = l.find("sux::") {
                let f = &l[i..];
                let f = f.split(" (").next().unwrap_or(f);
                let f = f.split("::h").next().unwrap_or(f);
                frame = f.trim().chars().take(120).collect();
                break;
            }
        }
        o.class = "abort".into();
        o.sig = format!("absurd_allocation@{frame}");
        o.msg = format!("worker aborted: memory allocation of {n} bytes requested (no machine has that much: a size computed wrongly) [{frame}]");
        return o;
    }
    if joined.contains("memory allocation of") || joined.contains("out of memory") || joined.contains("allocator is out of memory") || joined.contains("failed to allocate") {
        o.inconclusive = Some("oom".into());
        o.class = "oom".into();
        o.msg = tail.iter().rev().take(3).cloned().collect::<Vec<_>>().join(" | ");
        return o;
    }
    #[cfg(unix)]
    let sigdesc = {
        use std::os::unix::process::ExitStatusExt;
        match status {
            Some(s) => match s.signal() {
                Some(n) => format!("signal {n}"),
                None => format!("exit {}", s.code().unwrap_or(-1)),
            },
            None => "unknown".into(),
        }
    };
    if sigdesc == "signal 9" {
        // killed from outside (OOM killer): inconclusive
        o.inconclusive = Some("killed (SIGKILL, probably out of memory)".into());
        o.class = "oom".into();
        return o;
    }
    // find the most informative lines
    let mut what = String::new();
    for l in &tail {
        if l.contains("unsafe precondition") || l.contains("AddressSanitizer:") || l.contains("cannot unwind") || l.contains("misaligned") || l.contains("NOUNWIND") {
            what = l.trim().to_string();
            break;
        }
    }
    // first frame of the library under test
    let mut frame = String::new();
    for l in &tail {
        if let Some(i) = l.find("sux::") {
            let f = &l[i..];
            let f = f.split(" (").next().unwrap_or(f);
            let f = f.split("::h").next().unwrap_or(f);
            frame = f.trim().chars().take(120).collect();
            break;
        }
    }
    if what.len() > 160 {
        what.truncate(160);
    }
    o.class = "abort".into();
    let kind = if what.contains("AddressSanitizer") {
        what.split_whitespace().skip_while(|w| !w.contains("AddressSanitizer")).nth(1).unwrap_or("asan").to_string()
    } else if what.contains("unsafe precondition") {
        "ub_check".to_string()
    } else if !what.is_empty() {
        "nounwind".to_string()
    } else {
        sigdesc.clone()
    };
    o.sig = format!("{kind}@{frame}");
    o.msg = format!("worker died ({sigdesc}): {what} [{frame}]");
    o
}

/// Run one explicit case in a worker; respawns the worker if it dies.
fn run_case(sp: &Spawner, strict: bool, proc_: &mut Option<Proc>, data: &[u8], describe: bool, limit_s: u64) -> Outcome {
    if proc_.is_none() {
        *proc_ = Some(sp.spawn(strict));
    }
    let p = proc_.as_mut().unwrap();
    let line = format!("case {} {}\n", if describe { 1 } else { 0 }, hex(data));
    let mut o = Outcome::blank();
    let mut desc: Option<String> = None;
    let write_ok = p.stdin.write_all(line.as_bytes()).and_then(|_| p.stdin.flush()).is_ok();
    // watchdog for single cases: a helper thread that kills the child
    let pid = p.child.id();
    let done = Arc::new(AtomicBool::new(false));
    let killed = Arc::new(AtomicU64::new(0));
    let frames = Arc::new(Mutex::new(String::new()));
    {
        let done = done.clone();
        let killed = killed.clone();
        let frames = frames.clone();
        std::thread::spawn(move || {
            let t = Instant::now();
            let mut probe = DeadlockProbe::default();
            while !done.load(Ordering::SeqCst) {
                if probe.poll(pid) && !done.load(Ordering::SeqCst) {
                    *frames.lock().unwrap() = blocked_frames(pid);
                    killed.store(2, Ordering::SeqCst);
                    unsafe {
                        libc::kill(pid as i32, libc::SIGKILL);
                    }
                    return;
                }
                if t.elapsed() > Duration::from_secs(limit_s) {
                    killed.store(1, Ordering::SeqCst);
                    unsafe {
                        libc::kill(pid as i32, libc::SIGKILL);
                    }
                    return;
                }
                std::thread::sleep(Duration::from_millis(20));
            }
        });
    }
    let mut finished = false;
    if write_ok {
        let mut buf = String::new();
        loop {
            buf.clear();
            match p.stdout.read_line(&mut buf) {
                Ok(0) | Err(_) => break,
                Ok(_) => {}
            }
            let l = buf.trim_end_matches('\n');
            if l == "E" {
                finished = true;
                break;
            } else if let Some(d) = l.strip_prefix("D ") {
                desc = serde_json::from_str::<String>(d).ok();
            } else if l.starts_with("K ") {
                parse_k(l, &mut o);
            } else if l.starts_with("F\t") || l.starts_with("F ") {
                parse_f(l, &mut o);
            }
        }
    }
    done.store(true, Ordering::SeqCst);
    if !finished {
        let mut dead = proc_.take().unwrap();
        let kill = match killed.load(Ordering::SeqCst) {
            0 => Kill::No,
            1 => Kill::Watchdog,
            _ => Kill::Deadlock(std::mem::take(&mut *frames.lock().unwrap())),
        };
        return death_outcome(&mut dead, kill, desc);
    }
    o.description = desc;
    o
}

#[derive(Default)]
struct Agg {
    evaluations: u64,
    ops: u64,
    nontrivial: HashSet<u64>,
    nontrivial_total: u64,
    labels: BTreeMap<String, u64>,
    excluded: BTreeMap<String, u64>,
    samples: Vec<Value>,
    failures: Vec<FailRec>,
    fail_counts: HashMap<(String, String), u64>,
    inconclusive: Vec<Value>,
    per_segment: BTreeMap<usize, u64>,
}

#[derive(Clone)]
struct FailRec {
    class: String,
    sig: String,
    msg: String,
    seg: String,
    j: u64,
    data: Vec<u8>,
}

impl Agg {
    fn merge(&mut self, o: Agg) {
        self.evaluations += o.evaluations;
        self.ops += o.ops;
        self.nontrivial.extend(o.nontrivial);
        self.nontrivial_total += o.nontrivial_total;
        for (k, v) in o.labels {
            *self.labels.entry(k).or_insert(0) += v;
        }
        for (k, v) in o.excluded {
            *self.excluded.entry(k).or_insert(0) += v;
        }
        self.samples.extend(o.samples);
        for f in o.failures {
            self.add_failure(f);
        }
        for (k, v) in o.fail_counts {
            *self.fail_counts.entry(k).or_insert(0) += v;
        }
        self.inconclusive.extend(o.inconclusive);
        for (k, v) in o.per_segment {
            *self.per_segment.entry(k).or_insert(0) += v;
        }
    }
    fn add_failure(&mut self, f: FailRec) {
        // keep the smallest input of each signature
        if let Some(e) = self.failures.iter_mut().find(|e| e.class == f.class && e.sig == f.sig) {
            if f.data.len() < e.data.len() {
                *e = f;
            }
        } else if self.failures.len() < 40 {
            self.failures.push(f);
        }
    }
    fn record(&mut self, o: &Outcome, seg_idx: usize, seg: &Segment, j: u64, data: &[u8]) {
        self.evaluations += 1;
        *self.per_segment.entry(seg_idx).or_insert(0) += 1;
        if let Some(why) = &o.inconclusive {
            if self.inconclusive.len() < 20 {
                self.inconclusive.push(json!({"why": why, "segment": seg.name, "index": j, "case_hex": hex(data), "msg": o.msg}));
            }
            return;
        }
        if o.ok {
            self.ops += o.ops;
            if o.nontrivial {
                self.nontrivial.insert(o.hash);
                self.nontrivial_total += 1;
            }
            for l in &o.labels {
                *self.labels.entry(l.clone()).or_insert(0) += 1;
            }
            for (k, v) in &o.excluded {
                *self.excluded.entry(k.clone()).or_insert(0) += v;
            }
            if let Some(d) = &o.description {
                if self.samples.len() < 8 {
                    self.samples.push(json!({"segment": seg.name, "index": j, "labels": o.labels, "nontrivial": o.nontrivial, "case": d}));
                }
            }
        } else {
            *self.fail_counts.entry((o.class.clone(), o.sig.clone())).or_insert(0) += 1;
            self.add_failure(FailRec { class: o.class.clone(), sig: o.sig.clone(), msg: o.msg.clone(), seg: seg.name.to_string(), j, data: data.to_vec() });
        }
    }
}

/// One generation thread: pulls chunks, drives a worker.
#[allow(clippy::too_many_arguments)]
fn gen_thread(slot: usize, sp: Spawner, plan: Arc<Vec<Segment>>, queue: Arc<Mutex<VecDeque<(usize, u64, u64)>>>, watch: Arc<Watch>, prop_id: String, seed: u64, sampled_segments: Arc<Mutex<HashSet<usize>>>, stop_all: Arc<AtomicUsize>) -> Agg {
    let mut agg = Agg::default();
    let mut proc_: Option<Proc> = None;
    loop {
        if stop_all.load(Ordering::SeqCst) >= 2000 {
            break;
        }
        let chunk = queue.lock().unwrap().pop_front();
        let Some((seg, mut a, b)) = chunk else { break };
        while a < b {
            if proc_.is_none() {
                proc_ = Some(sp.spawn(false));
            }
            let p = proc_.as_mut().unwrap();
            let sample = sampled_segments.lock().unwrap().insert(seg);
            let cmd = format!("gen {seg} {a} {b} {}\n", sample as u8);
            if p.stdin.write_all(cmd.as_bytes()).and_then(|_| p.stdin.flush()).is_err() {
                // worker gone before we could talk to it
                let mut dead = proc_.take().unwrap();
                let o = death_outcome(&mut dead, Kill::No, None);
                let data = case_bytes(seed, &prop_id, seg, &plan[seg], a);
                agg.record(&o, seg, &plan[seg], a, &data);
                a += 1;
                continue;
            }
            let mut cur: Option<u64> = None;
            let mut desc: Option<String> = None;
            let mut finished = false;
            let mut buf = String::new();
            let pid = p.child.id();
            loop {
                buf.clear();
                match p.stdout.read_line(&mut buf) {
                    Ok(0) | Err(_) => break,
                    Ok(_) => {}
                }
                let l = buf.trim_end_matches('\n');
                if l == "E" {
                    finished = true;
                    watch.end(slot);
                    break;
                } else if let Some(rest) = l.strip_prefix("S ") {
                    let mut it = rest.split(' ');
                    it.next();
                    cur = it.next().and_then(|x| x.parse().ok());
                    desc = None;
                    watch.begin(slot, pid);
                } else if let Some(d) = l.strip_prefix("D ") {
                    desc = serde_json::from_str::<String>(d).ok();
                } else if l.starts_with("K ") || l.starts_with("F ") {
                    let mut o = Outcome::blank();
                    if l.starts_with("K ") {
                        parse_k(l, &mut o);
                    } else {
                        parse_f(l, &mut o);
                    }
                    o.description = desc.take();
                    let j = cur.unwrap_or(a);
                    if !o.ok {
                        stop_all.fetch_add(1, Ordering::SeqCst);
                    }
                    let data = if o.ok { Vec::new() } else { case_bytes(seed, &prop_id, seg, &plan[seg], j) };
                    agg.record(&o, seg, &plan[seg], j, &data);
                    a = j + 1;
                    watch.end(slot);
                }
            }
            if finished {
                a = b;
            } else {
                // the worker died while running case `cur`
                let mut dead = proc_.take().unwrap();
                let killed = watch.was_killed(slot);
                watch.end(slot);
                let j = cur.unwrap_or(a);
                let o = death_outcome(&mut dead, killed, desc.take());
                let data = case_bytes(seed, &prop_id, seg, &plan[seg], j);
                if o.inconclusive.is_none() {
                    stop_all.fetch_add(1, Ordering::SeqCst);
                }
                agg.record(&o, seg, &plan[seg], j, &data);
                a = j + 1;
            }
        }
    }
    if let Some(mut p) = proc_ {
        let _ = p.stdin.write_all(b"quit\n");
        let _ = p.stdin.flush();
        let _ = p.child.wait();
    }
    agg
}

/// Byte-level shrinking: a candidate is accepted only if it fails with the
/// same class and signature.
fn shrink(sp: &Spawner, start: &[u8], class: &str, sig: &str, limit_s: u64) -> (Vec<u8>, u64) {
    let budget: u64 = if class == "deadlock" { 10 } else if class == "abort" { 300 } else { 1500 };
    let deadline = Instant::now() + Duration::from_secs(150);
    let mut best = start.to_vec();
    let mut tried = 0u64;
    let mut proc_: Option<Proc> = None;
    let mut seen: HashSet<Vec<u8>> = HashSet::new();
    let mut test = |cand: &[u8], tried: &mut u64| -> bool {
        if *tried >= budget || Instant::now() > deadline {
            return false;
        }
        if !seen.insert(cand.to_vec()) {
            return false;
        }
        *tried += 1;
        let o = run_case(sp, false, &mut proc_, cand, false, limit_s);
        !o.ok && o.inconclusive.is_none() && o.class == class && o.sig == sig
    };
    let mut improved = true;
    while improved && tried < budget && Instant::now() < deadline {
        improved = false;
        // truncate
        let mut cut = best.len() / 2;
        while cut >= 1 {
            if best.len() > cut {
                let cand = best[..best.len() - cut].to_vec();
                if test(&cand, &mut tried) {
                    best = cand;
                    improved = true;
                    continue;
                }
            }
            cut /= 2;
        }
        // delete blocks
        for bs in [64usize, 32, 16, 8, 4, 2, 1] {
            if bs > best.len() {
                continue;
            }
            let mut i = 0;
            while i + bs <= best.len() {
                let mut cand = best.clone();
                cand.drain(i..i + bs);
                if test(&cand, &mut tried) {
                    best = cand;
                    improved = true;
                } else {
                    i += bs;
                }
                if tried >= budget {
                    break;
                }
            }
        }
        // zero blocks, then single bytes
        for bs in [16usize, 4, 1] {
            let mut i = 0;
            while i + bs <= best.len() {
                if best[i..i + bs].iter().any(|&b| b != 0) {
                    let mut cand = best.clone();
                    for b in &mut cand[i..i + bs] {
                        *b = 0;
                    }
                    if test(&cand, &mut tried) {
                        best = cand;
                        improved = true;
                    }
                }
                i += bs;
                if tried >= budget {
                    break;
                }
            }
        }
        // lower individual bytes
        for i in 0..best.len() {
            if tried >= budget {
                break;
            }
            let v = best[i];
            if v == 0 {
                continue;
            }
            for c in [v / 2, v - 1] {
                if c >= best[i] {
                    continue;
                }
                let mut cand = best.clone();
                cand[i] = c;
                if test(&cand, &mut tried) {
                    best = cand;
                    improved = true;
                    break;
                }
            }
        }
    }
    drop(test);
    if let Some(mut p) = proc_ {
        let _ = p.stdin.write_all(b"quit\n");
        let _ = p.child.kill();
        let _ = p.child.wait();
    }
    (best, tried)
}

fn read_json(p: &Path) -> Option<Value> {
    let s = std::fs::read_to_string(p).ok()?;
    serde_json::from_str(&s).ok()
}

fn sanitize(s: &str) -> String {
    let mut h = 0xcbf29ce484222325u64;
    for b in s.bytes() {
        h ^= b as u64;
        h = h.wrapping_mul(0x100000001b3);
    }
    format!("{:012x}", h & 0xffff_ffff_ffff)
}

/// Entry point of the parent. Returns the process exit code.
pub fn parent_main(prop: &dyn Property, args: ParentArgs) -> i32 {
    let t0 = Instant::now();
    let id = prop.id().to_string();
    let limit_s = prop.watchdog_s();
    DEADLOCK_IS_VIOLATION.store(prop.deadlock_is_violation(), Ordering::SeqCst);

    // known findings: ids of all open entries (predicates may be shared
    // between properties); entries of this property are re-checked below
    let mut open_ids: Vec<String> = vec![];
    let mut my_known: Vec<Value> = vec![];
    if let Some(k) = read_json(&args.known_file) {
        if let Some(arr) = k.get("findings").and_then(|f| f.as_array()) {
            for f in arr {
                let status = f.get("status").and_then(|s| s.as_str()).unwrap_or("");
                if status != "open" {
                    continue;
                }
                if let Some(i) = f.get("id").and_then(|s| s.as_str()) {
                    open_ids.push(i.to_string());
                }
                let mine = f.get("property").and_then(|s| s.as_str()) == Some(&id) || f.get("properties").and_then(|a| a.as_array()).map(|a| a.iter().any(|x| x.as_str() == Some(&id))).unwrap_or(false);
                if mine {
                    my_known.push(f.clone());
                }
            }
        }
    }
    let sp = Spawner { bin: args.worker_bin.clone(), prop: id.clone(), tier: args.tier, seed: args.seed, profile: args.profile.clone(), known: open_ids.join(",") };

    // ---- single replay ----------------------------------------------------
    if let Some(file) = &args.single_replay {
        let Some(v) = read_json(file) else {
            eprintln!("cannot read replay file {}", file.display());
            return 2;
        };
        let Some(data) = v.get("case_hex").and_then(|s| s.as_str()).and_then(unhex) else {
            eprintln!("replay file has no case_hex");
            return 2;
        };
        let mut p = None;
        let o = run_case(&sp, true, &mut p, &data, true, limit_s);
        if let Some(d) = &o.description {
            println!("decoded: {d}");
        }
        if let Some(why) = &o.inconclusive {
            println!("INCONCLUSIVE {why}");
            return 2;
        }
        if o.ok {
            println!("replay passed ({} ops checked, labels {:?})", o.ops, o.labels);
            return 0;
        }
        println!("replay failed: class={} sig={} msg={}", o.class, o.sig, o.msg);
        println!("VIOLATION property={} replay={}", id, file.display());
        return 1;
    }

    let mut plan = prop.plan(args.tier);
    if (args.scale - 1.0).abs() > 1e-9 {
        for s in plan.iter_mut() {
            if !s.is_enumerated() {
                s.count = ((s.count as f64) * args.scale).ceil() as u64;
            }
        }
    }
    let plan = Arc::new(plan);

    let mut failures_out: Vec<Value> = vec![];
    let mut replayed: Vec<Value> = vec![];
    let mut known_out: Vec<Value> = vec![];
    let mut inconclusive: Vec<Value> = vec![];

    // ---- replay tier: committed regression inputs, strict mode -------------
    let rdir = args.replays_dir.join(&id);
    let mut files: Vec<PathBuf> = std::fs::read_dir(&rdir).map(|d| d.filter_map(|e| e.ok()).map(|e| e.path()).filter(|p| p.extension().map(|e| e == "json").unwrap_or(false)).collect()).unwrap_or_default();
    files.sort();
    {
        let mut p = None;
        for f in &files {
            let Some(v) = read_json(f) else { continue };
            let Some(data) = v.get("case_hex").and_then(|s| s.as_str()).and_then(unhex) else { continue };
            // a replay file may be restricted to some profiles
            if let Some(ps) = v.get("profiles").and_then(|a| a.as_array()) {
                if !ps.iter().any(|x| x.as_str() == Some(&args.profile)) {
                    continue;
                }
            }
            let o = run_case(&sp, true, &mut p, &data, false, limit_s);
            if let Some(why) = &o.inconclusive {
                inconclusive.push(json!({"why": why, "replay": f.display().to_string()}));
                continue;
            }
            replayed.push(json!({"file": f.display().to_string(), "ok": o.ok, "ops": o.ops}));
            if !o.ok {
                failures_out.push(json!({"class": o.class, "sig": format!("replay:{}", o.sig), "msg": o.msg, "count": 1, "replay": f.display().to_string(), "case_hex": hex(&data), "source": "replay-tier"}));
            }
        }
        if let Some(mut p) = p {
            let _ = p.stdin.write_all(b"quit\n");
            let _ = p.child.wait();
        }
    }

    // ---- open known findings of this property: do they still fail? ---------
    // (each replay in its own worker, in parallel: some of them run up to a
    // deterministic attempt bound)
    {
        let mut handles = vec![];
        for f in &my_known {
            let kid = f.get("id").and_then(|s| s.as_str()).unwrap_or("?").to_string();
            let what = f.get("what").and_then(|s| s.as_str()).unwrap_or("").to_string();
            let mut replays: Vec<String> = vec![];
            if let Some(r) = f.get("replay").and_then(|s| s.as_str()) {
                replays.push(r.to_string());
            }
            if let Some(rs) = f.get("replays").and_then(|s| s.as_array()) {
                for r in rs {
                    if let Some(r) = r.as_str() {
                        replays.push(r.to_string());
                    }
                }
            }
            let mut hs = vec![];
            for r in replays {
                let path = if Path::new(&r).is_absolute() { PathBuf::from(&r) } else { args.known_file.parent().unwrap_or(Path::new(".")).join(&r) };
                let Some(v) = read_json(&path) else { continue };
                if v.get("property").and_then(|s| s.as_str()) != Some(&id) {
                    continue;
                }
                if let Some(ps) = v.get("profiles").and_then(|a| a.as_array()) {
                    if !ps.iter().any(|x| x.as_str() == Some(&args.profile)) {
                        continue;
                    }
                }
                let Some(data) = v.get("case_hex").and_then(|s| s.as_str()).and_then(unhex) else { continue };
                let sp = sp.clone();
                hs.push(std::thread::spawn(move || {
                    let mut p = None;
                    let o = run_case(&sp, true, &mut p, &data, false, limit_s);
                    if let Some(mut p) = p {
                        let _ = p.stdin.write_all(b"quit\n");
                        let _ = p.child.wait();
                    }
                    !o.ok && o.inconclusive.is_none()
                }));
            }
            handles.push((kid, what, hs));
        }
        for (kid, what, hs) in handles {
            let checked = hs.len();
            let mut still = false;
            for h in hs {
                still |= h.join().unwrap_or(false);
            }
            known_out.push(json!({"id": kid, "what": what, "still_fails": still, "replays_checked": checked}));
        }
    }

    // ---- generation ---------------------------------------------------------
    let mut agg = Agg::default();
    if !args.replay_only {
        let mut q: VecDeque<(usize, u64, u64)> = VecDeque::new();
        for (si, s) in plan.iter().enumerate() {
            // chunk size: aim at ~40 chunks per worker per segment, within 1..=256
            let cs = (s.count / (args.jobs as u64 * 40).max(1)).clamp(1, 256);
            let mut a = 0;
            while a < s.count {
                let b = (a + cs).min(s.count);
                q.push_back((si, a, b));
                a = b;
            }
        }
        let queue = Arc::new(Mutex::new(q));
        let watch = Arc::new(Watch::new(args.jobs));
        let stop = Arc::new(AtomicBool::new(false));
        let mon = {
            let w = watch.clone();
            let s = stop.clone();
            std::thread::spawn(move || w.monitor(limit_s, s))
        };
        let sampled = Arc::new(Mutex::new(HashSet::new()));
        let stop_all = Arc::new(AtomicUsize::new(0));
        let mut hs = vec![];
        for slot in 0..args.jobs {
            let (sp, plan, queue, watch, id, sampled, stop_all) = (sp.clone(), plan.clone(), queue.clone(), watch.clone(), id.clone(), sampled.clone(), stop_all.clone());
            let seed = args.seed;
            hs.push(std::thread::spawn(move || gen_thread(slot, sp, plan, queue, watch, id, seed, sampled, stop_all)));
        }
        for h in hs {
            agg.merge(h.join().expect("generation thread panicked"));
        }
        stop.store(true, Ordering::SeqCst);
        let _ = mon.join();
    }
    // a watchdog hit during generation may be a stall of the machine (I/O, memory pressure) rather than of the
    // case: every such case is run once more, alone, in a fresh worker with twice the limit; only a second
    // hit stays inconclusive, a failure on the retry is an ordinary failure
    let mut retried_ok = 0u64;
    for inc in agg.inconclusive.clone() {
        let why = inc.get("why").and_then(|w| w.as_str()).unwrap_or("");
        let data = inc.get("case_hex").and_then(|h| h.as_str()).and_then(unhex);
        match (why, data) {
            ("watchdog", Some(data)) => {
                let mut p = None;
                let o = run_case(&sp, false, &mut p, &data, false, limit_s * 2);
                if let Some(mut p) = p {
                    let _ = p.stdin.write_all(b"quit\n");
                    let _ = p.child.wait();
                }
                if o.inconclusive.is_some() {
                    inconclusive.push(inc);
                } else if o.ok {
                    retried_ok += 1;
                    agg.evaluations += 1;
                } else {
                    *agg.fail_counts.entry((o.class.clone(), o.sig.clone())).or_insert(0) += 1;
                    let seg = inc.get("segment").and_then(|s| s.as_str()).unwrap_or("").to_string();
                    let j = inc.get("index").and_then(|s| s.as_u64()).unwrap_or(0);
                    agg.add_failure(FailRec { class: o.class.clone(), sig: o.sig.clone(), msg: o.msg.clone(), seg, j, data });
                }
            }
            _ => inconclusive.push(inc),
        }
    }
    if retried_ok > 0 {
        agg.labels.insert("watchdog_then_passed_on_retry".into(), retried_ok);
    }

    // ---- shrink each distinct failure signature -----------------------------
    let _ = std::fs::create_dir_all(args.out_replays_dir.join(&id));
    let fails: Vec<FailRec> = agg.failures.iter().take(20).cloned().collect();
    let mut hs = vec![];
    for f in fails {
        let sp = sp.clone();
        let id = id.clone();
        let out_dir = args.out_replays_dir.join(&id);
        let profile = args.profile.clone();
        let tier = args.tier;
        let seed = args.seed;
        let count = *agg.fail_counts.get(&(f.class.clone(), f.sig.clone())).unwrap_or(&1);
        hs.push(std::thread::spawn(move || {
            let (small, tried) = shrink(&sp, &f.data, &f.class, &f.sig, limit_s);
            // final strict run with description
            let mut p = None;
            let o = run_case(&sp, true, &mut p, &small, true, limit_s);
            if let Some(mut p) = p {
                let _ = p.stdin.write_all(b"quit\n");
                let _ = p.child.kill();
                let _ = p.child.wait();
            }
            let name = format!("{}-{}-{}.json", profile, f.class, sanitize(&f.sig));
            let path = out_dir.join(name);
            let v = json!({
                "property": id,
                "engine": "vcheck",
                "profile": profile,
                "tier": tier.name(),
                "seed": seed,
                "case_hex": hex(&small),
                "original_len": f.data.len(),
                "shrunk_len": small.len(),
                "shrink_candidates": tried,
                "found_in": {"segment": f.seg, "index": f.j},
                "failure": {"class": f.class, "sig": f.sig, "msg": f.msg},
                "strict_rerun": {"ok": o.ok, "class": o.class, "sig": o.sig, "msg": o.msg},
                "decoded": o.description,
            });
            let _ = std::fs::write(&path, serde_json::to_string_pretty(&v).unwrap());
            json!({"class": f.class, "sig": f.sig, "msg": f.msg, "count": count, "replay": path.display().to_string(), "case_hex": hex(&small), "decoded": v["decoded"], "source": "generated"})
        }));
    }
    for h in hs {
        if let Ok(v) = h.join() {
            failures_out.push(v);
        }
    }

    let segs: Vec<Value> = plan.iter().enumerate().map(|(i, s)| json!({"name": s.name, "planned": s.count, "executed": agg.per_segment.get(&i).copied().unwrap_or(0), "enumerated": s.is_enumerated()})).collect();
    let exhaustive_done = plan.iter().enumerate().filter(|(i, s)| s.is_enumerated() && agg.per_segment.get(i).copied().unwrap_or(0) == s.count).map(|(_, s)| s.name).collect::<Vec<_>>();
    let report = json!({
        "property": id,
        "tier": args.tier.name(),
        "seed": args.seed,
        "profile": args.profile,
        "wall_s": t0.elapsed().as_secs_f64(),
        "evaluations": agg.evaluations,
        "operations": agg.ops,
        "nontrivial_cases": agg.nontrivial_total,
        "distinct_nontrivial": agg.nontrivial.len(),
        "labels": agg.labels,
        "excluded_known": agg.excluded,
        "samples": agg.samples,
        "segments": segs,
        "exhaustive_subdomains": exhaustive_done,
        "failures": failures_out,
        "inconclusive": inconclusive,
        "replayed": replayed,
        "known": known_out,
        "rule": prop.rule(),
        "assumptions": prop.assumptions(),
        "jobs": args.jobs,
    });
    if let Some(d) = args.out_json.parent() {
        let _ = std::fs::create_dir_all(d);
    }
    if let Err(e) = std::fs::write(&args.out_json, serde_json::to_string(&report).unwrap()) {
        eprintln!("cannot write {}: {e}", args.out_json.display());
        return 2;
    }
    if !report["failures"].as_array().unwrap().is_empty() {
        1
    } else if !report["inconclusive"].as_array().unwrap().is_empty() {
        2
    } else {
        0
    }
}
