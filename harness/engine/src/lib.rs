//! Generic property-based-testing engine used by every check.
//!
//! A *case* is a byte string. A property decodes it (with
//! `arbitrary::Unstructured`) into a structured input, runs the library under
//! test against an oracle and returns `Ok(())` or a `Fail`. The engine owns
//! generation (seeded, pure function of `(seed, property, segment, index)`),
//! execution in disposable worker processes, failure classification,
//! byte-level shrinking and the output files.
//!
//! This crate does not depend on `sux`.

pub mod parent;
pub mod rng;
pub mod worker;

use std::collections::{BTreeMap, BTreeSet, HashSet};
use std::hash::{Hash, Hasher};
use std::panic::{catch_unwind, AssertUnwindSafe};
use std::sync::Mutex;

pub use arbitrary::Unstructured;

#[derive(Clone, Copy, Debug, PartialEq, Eq)]
pub enum Tier {
    Quick,
    Thorough,
}

impl Tier {
    pub fn parse(s: &str) -> Option<Tier> {
        match s {
            "quick" => Some(Tier::Quick),
            "thorough" => Some(Tier::Thorough),
            _ => None,
        }
    }
    pub fn name(self) -> &'static str {
        match self {
            Tier::Quick => "quick",
            Tier::Thorough => "thorough",
        }
    }
    /// `q` in the quick tier, `t` in the thorough tier.
    pub fn pick<T>(self, q: T, t: T) -> T {
        match self {
            Tier::Quick => q,
            Tier::Thorough => t,
        }
    }
}

/// A part of the case space of a property.
#[derive(Clone, Debug)]
pub struct Segment {
    pub name: &'static str,
    /// number of cases
    pub count: u64,
    /// bytes prepended to every case of the segment (selects a decoder mode)
    pub prefix: Vec<u8>,
    pub kind: SegKind,
}

#[derive(Clone, Debug)]
pub enum SegKind {
    /// case `j` = prefix ++ random bytes; lengths follow a schedule between
    /// `min_bytes` and `max_bytes`
    Random { min_bytes: usize, max_bytes: usize },
    /// case `j` = prefix ++ `j` as 8 little-endian bytes: complete
    /// enumeration of a finite sub-domain
    Enumerated,
}

impl Segment {
    pub fn random(name: &'static str, count: u64, prefix: &[u8], min_bytes: usize, max_bytes: usize) -> Self {
        Segment { name, count, prefix: prefix.to_vec(), kind: SegKind::Random { min_bytes, max_bytes } }
    }
    pub fn enumerated(name: &'static str, count: u64, prefix: &[u8]) -> Self {
        Segment { name, count, prefix: prefix.to_vec(), kind: SegKind::Enumerated }
    }
    pub fn is_enumerated(&self) -> bool {
        matches!(self.kind, SegKind::Enumerated)
    }
}

#[derive(Clone, Copy, Debug, PartialEq, Eq)]
pub enum Class {
    /// library answer differs from the oracle / invariant broken
    Mismatch,
    /// unwinding panic on an operation expected to succeed
    Panic,
    /// an operation that must be rejected was accepted
    NoPanic,
    /// deterministic attempt bound exceeded
    NonConv,
    /// worker process died (assigned by the parent only)
    Abort,
}

impl Class {
    pub fn name(self) -> &'static str {
        match self {
            Class::Mismatch => "mismatch",
            Class::Panic => "panic",
            Class::NoPanic => "no-panic",
            Class::NonConv => "nonconv",
            Class::Abort => "abort",
        }
    }
}

#[derive(Clone, Debug)]
pub struct Fail {
    pub class: Class,
    /// signature: failures with the same (class, sig) are one finding for
    /// de-duplication and shrinking
    pub sig: String,
    pub msg: String,
}

impl Fail {
    pub fn mismatch(tag: impl Into<String>, msg: impl Into<String>) -> Fail {
        Fail { class: Class::Mismatch, sig: tag.into(), msg: msg.into() }
    }
    pub fn nonconv(tag: impl Into<String>, msg: impl Into<String>) -> Fail {
        Fail { class: Class::NonConv, sig: tag.into(), msg: msg.into() }
    }
}

pub type R<T = ()> = Result<T, Fail>;

/// What a property implementation provides.
pub trait Property: Sync {
    fn id(&self) -> &'static str;
    fn plan(&self, tier: Tier) -> Vec<Segment>;
    /// Decode and run one case.
    fn run(&self, data: &[u8], cx: &mut Ctx) -> R;
    /// How cases are generated and what makes one non-trivial (goes into the
    /// evidence file).
    fn rule(&self) -> &'static str;
    /// Per-case wall-clock backstop in seconds; hitting it is *inconclusive*
    /// (exit 2), never a violation.
    fn watchdog_s(&self) -> u64 {
        120
    }
    /// Whether "the call returns" is part of the property: then a worker
    /// whose threads are all blocked without consuming CPU (see
    /// `parent::DEADLOCK_S`) is a failure of class `deadlock`; otherwise it is
    /// inconclusive like the watchdog.
    fn deadlock_is_violation(&self) -> bool {
        false
    }
    /// Extra assumptions to record in the evidence.
    fn assumptions(&self) -> Vec<&'static str> {
        vec![]
    }
}

/// Per-case context handed to `Property::run`.
pub struct Ctx {
    /// strict mode (replay): no known-finding exclusion
    pub strict: bool,
    pub profile: String,
    pub tier: Tier,
    known_open: HashSet<String>,
    labels: BTreeSet<String>,
    nontrivial: bool,
    ops: u64,
    hasher: std::collections::hash_map::DefaultHasher,
    hashed: bool,
    excluded: BTreeMap<String, u64>,
    want_describe: bool,
    description: Option<String>,
    describe_sink: Option<Box<dyn FnMut(&str)>>,
}

impl Ctx {
    pub fn new(strict: bool, profile: &str, tier: Tier, known_open: &HashSet<String>, want_describe: bool) -> Ctx {
        Ctx {
            strict,
            profile: profile.to_string(),
            tier,
            known_open: known_open.clone(),
            labels: BTreeSet::new(),
            nontrivial: false,
            ops: 0,
            hasher: std::collections::hash_map::DefaultHasher::new(),
            hashed: false,
            excluded: BTreeMap::new(),
            want_describe,
            description: None,
            describe_sink: None,
        }
    }

    pub fn set_describe_sink(&mut self, f: Box<dyn FnMut(&str)>) {
        self.describe_sink = Some(f);
    }

    /// Attach a label to the case (counted in the evidence histogram).
    pub fn label(&mut self, l: &str) {
        if !self.labels.contains(l) {
            self.labels.insert(l.to_string());
        }
    }
    pub fn label_if(&mut self, c: bool, l: &str) {
        if c {
            self.label(l)
        }
    }
    pub fn has_label(&self, l: &str) -> bool {
        self.labels.contains(l)
    }
    /// Mark the case as non-trivial by the property's rule.
    pub fn nontrivial(&mut self) {
        self.nontrivial = true;
    }
    pub fn nontrivial_if(&mut self, c: bool) {
        if c {
            self.nontrivial = true;
        }
    }
    /// Count library calls checked against the oracle.
    pub fn ops(&mut self, n: u64) {
        self.ops += n;
    }
    /// Feed the *decoded* case into the case hash (two byte strings decoding
    /// to the same case count once).
    pub fn hash<T: Hash + ?Sized>(&mut self, t: &T) {
        t.hash(&mut self.hasher);
        self.hashed = true;
    }
    /// Describe the decoded case (evaluated only when a dump is wanted). Must
    /// be called right after decoding, before the library is exercised, so
    /// that it is available even if the process dies.
    pub fn describe(&mut self, f: impl FnOnce() -> String) {
        if self.want_describe && self.description.is_none() {
            let mut s = f();
            if s.len() > 6000 {
                let mut cut = 6000;
                while !s.is_char_boundary(cut) {
                    cut -= 1;
                }
                s.truncate(cut);
                s.push_str("…[truncated]");
            }
            if let Some(sink) = self.describe_sink.as_mut() {
                sink(&s);
            }
            self.description = Some(s);
        }
    }
    pub fn wants_description(&self) -> bool {
        self.want_describe
    }

    /// Is `id` an *open* known finding whose trigger must be excluded by
    /// construction? Always false in strict mode. Counts the exclusion.
    pub fn excluded(&mut self, id: &str) -> bool {
        if !self.strict && self.known_open.contains(id) {
            *self.excluded.entry(id.to_string()).or_insert(0) += 1;
            true
        } else {
            false
        }
    }

    /// An operation that must succeed: an unwinding panic is a violation.
    pub fn must<T>(&mut self, tag: &str, f: impl FnOnce() -> T) -> R<T> {
        self.ops += 1;
        take_panic();
        match catch_unwind(AssertUnwindSafe(f)) {
            Ok(v) => Ok(v),
            Err(_) => {
                let (loc, msg) = take_panic().unwrap_or_default();
                Err(Fail { class: Class::Panic, sig: loc.clone(), msg: format!("{tag}: unexpected panic at {loc}: {msg}") })
            }
        }
    }

    /// An operation that must be rejected by a panic.
    pub fn must_panic<T>(&mut self, tag: &str, f: impl FnOnce() -> T) -> R {
        self.ops += 1;
        take_panic();
        match catch_unwind(AssertUnwindSafe(f)) {
            Ok(_) => Err(Fail { class: Class::NoPanic, sig: tag.to_string(), msg: format!("{tag}: accepted an input that must be rejected") }),
            Err(_) => {
                take_panic();
                Ok(())
            }
        }
    }

    /// An operation that may answer or panic (only memory safety is judged).
    pub fn any<T>(&mut self, f: impl FnOnce() -> T) -> Option<T> {
        self.ops += 1;
        take_panic();
        match catch_unwind(AssertUnwindSafe(f)) {
            Ok(v) => Some(v),
            Err(_) => {
                take_panic();
                None
            }
        }
    }

    /// Oracle comparison.
    pub fn check(&mut self, cond: bool, tag: &str, msg: impl FnOnce() -> String) -> R {
        if cond {
            Ok(())
        } else {
            Err(Fail::mismatch(tag, format!("{tag}: {}", msg())))
        }
    }

    pub fn check_eq<T: PartialEq + std::fmt::Debug>(&mut self, got: T, want: T, tag: &str, what: impl FnOnce() -> String) -> R {
        if got == want {
            Ok(())
        } else {
            Err(Fail::mismatch(tag, format!("{tag}: {}: got {:?}, expected {:?}", what(), got, want)))
        }
    }
}

/// Differential check of the `Iterator` protocol: the same script of
/// `next` / `nth` / `size_hint` / `by_ref().skip` steps and one consuming
/// adaptor (`count`, `last`, `collect`, `step_by`, `skip`, `fold`) is applied
/// to `it` and to the iterator of the expected items; every answer must agree.
/// Nothing is asked of an iterator after it has returned `None` (the crate
/// does not promise fused iterators).
pub fn iter_protocol<T: PartialEq + std::fmt::Debug + Clone, I: Iterator<Item = T>>(cx: &mut Ctx, tag: &str, mut it: I, expected: &[T], script: u64) -> R {
    let mut m = expected.iter().cloned();
    let mut x = script | 1;
    let mut rnd = move || {
        x ^= x << 13;
        x ^= x >> 7;
        x ^= x << 17;
        x
    };
    let mut remaining = expected.len();
    let steps = (rnd() % 6) as usize;
    let mut trace: Vec<String> = vec![];
    for _ in 0..steps {
        let r = rnd();
        let (got, want, what) = match r % 5 {
            0 | 1 => (cx.must(tag, || it.next())?, m.next(), "next()".to_string()),
            2 => {
                let k = (r >> 8) as usize % 4;
                (cx.must(tag, || it.nth(k))?, m.nth(k), format!("nth({k})"))
            }
            3 => {
                let k = match (r >> 8) % 4 {
                    0 => remaining.saturating_sub(1),
                    1 => remaining,
                    2 => remaining + 1,
                    _ => (r >> 16) as usize % (remaining + 2),
                };
                (cx.must(tag, || it.nth(k))?, m.nth(k), format!("nth({k})"))
            }
            _ => {
                let (lo, hi) = cx.must(tag, || it.size_hint())?;
                if lo > remaining || hi.is_some_and(|h| h < remaining) {
                    return Err(Fail::mismatch(&format!("{tag}.size_hint"), format!("{tag}: size_hint() = ({lo}, {hi:?}) with {remaining} items remaining after [{}]", trace.join(", "))));
                }
                continue;
            }
        };
        trace.push(what);
        if got != want {
            return Err(Fail::mismatch(&format!("{tag}.protocol"), format!("{tag}: after [{}] on a sequence of {} items: got {:?}, expected {:?}", trace.join(", "), expected.len(), got, want)));
        }
        remaining = m.len();
        if want.is_none() {
            return Ok(());
        }
    }
    let r = rnd();
    let k = 1 + (r >> 8) as usize % 5;
    let cap = remaining + 3; // a runaway iterator must not fill the memory
    let (got, want, what): (Vec<T>, Vec<T>, String) = match r % 6 {
        0 => (vec![], vec![], {
            let c = cx.must(tag, || it.take(cap).count())?;
            let w = m.count();
            if c != w {
                return Err(Fail::mismatch(&format!("{tag}.protocol"), format!("{tag}: after [{}]: count() = {c}, expected {w}", trace.join(", "))));
            }
            "count()".into()
        }),
        1 => (cx.must(tag, || it.take(cap).last().into_iter().collect())?, m.last().into_iter().collect(), "last()".into()),
        2 => (cx.must(tag, || it.take(cap).collect())?, m.collect(), "collect()".into()),
        3 => (cx.must(tag, || it.step_by(k).take(cap).collect())?, m.step_by(k).collect(), format!("step_by({k})")),
        4 => (cx.must(tag, || it.skip(k).take(cap).collect())?, m.skip(k).collect(), format!("skip({k})")),
        _ => (cx.must(tag, || it.take(cap).fold(vec![], |mut a, t| { a.push(t); a }))?, m.collect(), "fold".into()),
    };
    if got != want {
        let i = (0..got.len().max(want.len())).find(|i| got.get(*i) != want.get(*i)).unwrap_or(0);
        return Err(Fail::mismatch(&format!("{tag}.protocol"), format!("{tag}: after [{}] then {what} on a sequence of {} items: {} items, expected {}; first difference at {i}: {:?} vs {:?}", trace.join(", "), expected.len(), got.len(), want.len(), got.get(i), want.get(i))));
    }
    Ok(())
}

pub struct CaseReport {
    pub nontrivial: bool,
    pub hash: u64,
    pub ops: u64,
    pub labels: Vec<String>,
    pub excluded: BTreeMap<String, u64>,
    pub description: Option<String>,
}

impl Ctx {
    pub fn finish(self, data: &[u8]) -> CaseReport {
        let mut h = self.hasher;
        if !self.hashed {
            data.hash(&mut h);
        }
        CaseReport {
            nontrivial: self.nontrivial,
            hash: h.finish(),
            ops: self.ops,
            labels: self.labels.into_iter().collect(),
            excluded: self.excluded,
            description: self.description,
        }
    }
}

// ---------------------------------------------------------------------------
// panic capture

static LAST_PANIC: Mutex<Option<(String, String)>> = Mutex::new(None);

/// Install a silent panic hook recording the first panic since the last
/// `take_panic`.
pub fn install_panic_hook() {
    std::panic::set_hook(Box::new(|info| {
        let loc = info.location().map(|l| format!("{}:{}", strip_path(l.file()), l.line())).unwrap_or_else(|| "?".into());
        let msg = if let Some(s) = info.payload().downcast_ref::<&str>() {
            s.to_string()
        } else if let Some(s) = info.payload().downcast_ref::<String>() {
            s.clone()
        } else {
            "<non-string payload>".to_string()
        };
        if msg.starts_with("unsafe precondition") || msg.contains("cannot unwind") || msg.starts_with("misaligned pointer") || msg.starts_with("null pointer") {
            // the process is about to abort: leave a trace for the parent
            eprintln!("NOUNWIND panic at {loc}: {msg}");
            eprintln!("{}", std::backtrace::Backtrace::force_capture());
        }
        let mut g = LAST_PANIC.lock().unwrap_or_else(|e| e.into_inner());
        if g.is_none() {
            let mut m = msg;
            if m.len() > 300 {
                let mut cut = 300;
                while !m.is_char_boundary(cut) {
                    cut -= 1;
                }
                m.truncate(cut);
            }
            *g = Some((loc, m));
        }
    }));
}

fn strip_path(p: &str) -> &str {
    // keep paths short and stable: drop everything up to a well-known root
    for root in ["/repo/", "/harness/"] {
        if let Some(i) = p.find(root) {
            return &p[i + root.len()..];
        }
    }
    if let Some(i) = p.find("/registry/src/") {
        let rest = &p[i + "/registry/src/".len()..];
        if let Some(j) = rest.find('/') {
            return &rest[j + 1..];
        }
    }
    p
}

pub fn take_panic() -> Option<(String, String)> {
    LAST_PANIC.lock().unwrap_or_else(|e| e.into_inner()).take()
}

// ---------------------------------------------------------------------------
// decoding helpers shared by all properties

/// Length classes biased towards word/block boundaries. Returns a value in
/// `0..=cap`.
pub fn len_class(u: &mut Unstructured, cap: usize) -> usize {
    let c = u.int_in_range(0u8..=9).unwrap_or(0);
    let v = match c {
        0 => u.int_in_range(0usize..=3).unwrap_or(0),
        1 | 2 => {
            // k*64 + {-1,0,1}
            let k = u.int_in_range(1usize..=(cap / 64).max(1)).unwrap_or(1);
            let d = u.int_in_range(0usize..=2).unwrap_or(1);
            (k * 64 + d).saturating_sub(1)
        }
        3 => {
            let k = u.int_in_range(1usize..=(cap / 512).max(1)).unwrap_or(1);
            let d = u.int_in_range(0usize..=2).unwrap_or(1);
            (k * 512 + d).saturating_sub(1)
        }
        4 => u.int_in_range(0usize..=130.min(cap)).unwrap_or(0),
        5 => {
            let k = u.int_in_range(1usize..=(cap / 2048).max(1)).unwrap_or(1);
            let d = u.int_in_range(0usize..=2).unwrap_or(1);
            (k * 2048 + d).saturating_sub(1)
        }
        6 => {
            // powers of two +-1
            let e = u.int_in_range(0u32..=usize::BITS - 1).unwrap_or(0);
            let d = u.int_in_range(0usize..=2).unwrap_or(1);
            ((1usize << e).min(cap) + d).saturating_sub(1)
        }
        _ => u.int_in_range(0usize..=cap).unwrap_or(0),
    };
    v.min(cap)
}

/// Value classes for a `bits`-wide unsigned value (`bits` in 0..=128).
pub fn value_class(u: &mut Unstructured, bits: u32) -> u128 {
    if bits == 0 {
        return 0;
    }
    let mask: u128 = if bits >= 128 { u128::MAX } else { (1u128 << bits) - 1 };
    let c = u.int_in_range(0u8..=7).unwrap_or(0);
    let v = match c {
        0 => 0,
        1 => 1,
        2 => mask,
        3 => 1u128 << (bits - 1),
        4 => 0xAAAA_AAAA_AAAA_AAAA_AAAA_AAAA_AAAA_AAAAu128,
        5 => mask - 1,
        _ => u.arbitrary::<u128>().unwrap_or(0),
    };
    v & mask
}

/// An index into `0..n` decoded monotonically (shrinks towards 0).
pub fn index(u: &mut Unstructured, n: usize) -> usize {
    if n <= 1 {
        0
    } else {
        u.int_in_range(0..=n - 1).unwrap_or(0)
    }
}

pub fn hex(data: &[u8]) -> String {
    let mut s = String::with_capacity(data.len() * 2);
    for b in data {
        s.push_str(&format!("{:02x}", b));
    }
    s
}

pub fn unhex(s: &str) -> Option<Vec<u8>> {
    let s = s.trim();
    if s.len() % 2 != 0 {
        return None;
    }
    let mut v = Vec::with_capacity(s.len() / 2);
    let b = s.as_bytes();
    for i in (0..b.len()).step_by(2) {
        let h = (b[i] as char).to_digit(16)?;
        let l = (b[i + 1] as char).to_digit(16)?;
        v.push((h * 16 + l) as u8);
    }
    Some(v)
}
