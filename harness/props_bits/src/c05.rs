//! C05 — BitFieldVec is observationally a Vec of w-bit values under any op sequence.

use crate::words::*;
use common_traits::{AsBytes, AtomicUnsignedInt, CastableInto};
use engine::*;
use std::sync::atomic::Ordering;
use sux::bits::{AtomicBitFieldVec, BitFieldVec};
use sux::traits::bit_field_slice::{AtomicBitFieldSlice, BitFieldSlice, BitFieldSliceCore, BitFieldSliceMut};
use sux::traits::{IntoIteratorFrom, IntoReverseUncheckedIterator, IntoUncheckedIterator, UncheckedIterator};

pub struct C05;

#[derive(Debug, Clone, Hash)]
pub enum Init {
    New(usize),
    NewUnaligned(usize),
    WithCapacity(usize),
    /// `bit_field_vec!` forms (usize only; other word types fall back to New)
    MacroEmpty,
    MacroFill(usize, u128),
    MacroList(Vec<u128>),
    FromSlice(Vec<u128>),
}

#[derive(Debug, Clone, Hash)]
pub enum AOp {
    Get(usize),
    Set(usize, u128),
    SetBadValue(usize),
    SetOob(u8, u128),
    GetOob(u8),
    Reset(bool),
}

#[derive(Debug, Clone, Hash)]
enum Op {
    Push(u128),
    PushBad,
    Pop,
    Set(usize, u128),
    SetBadValue(usize),
    SetOob(u8, u128),
    Get(usize),
    GetOob(u8),
    Resize(usize, u128),
    ResizeBad(usize),
    Clear,
    Extend(Vec<u128>),
    IterFrom(usize),
    IterFromOob(u8),
    UncheckedFrom(usize),
    RevUncheckedFrom(usize),
    EqCopy,
    NeOne(usize),
    NeWidth,
    FromSliceAll,
    BoxRoundTrip,
    CloneIt,
    Atomic(bool, Vec<AOp>),
    /// Writes garbage, through the safe `as_mut_slice`, into the backend bits beyond the contents.
    Scribble(u64),
}

fn oob_index(k: u8, len: usize) -> usize {
    match k % 6 {
        0 => len,
        1 => len + 1,
        2 => len + 64,
        3 => 1usize << 32,
        4 => usize::MAX / 128,
        _ => len + (k as usize),
    }
}

fn values(u: &mut Unstructured, width: usize, cap: usize) -> Vec<u128> {
    let n = len_class(u, cap);
    (0..n).map(|_| value_class(u, width as u32)).collect()
}

fn decode(u: &mut Unstructured, wbits: usize, is_usize: bool) -> (usize, Init, Vec<Op>) {
    // width classes: 0, 1, BITS, BITS-1, powers of two, uniform
    let width = match u.int_in_range(0u8..=9).unwrap_or(0) {
        0 => 0,
        1 => 1,
        2 => wbits,
        3 => wbits - 1,
        4 => 1usize << u.int_in_range(0u32..=wbits.trailing_zeros()).unwrap_or(0),
        _ => u.int_in_range(0usize..=wbits).unwrap_or(0),
    };
    let cap = 200;
    let init = match u.int_in_range(0u8..=7).unwrap_or(0) {
        0 | 1 => Init::New(len_class(u, cap)),
        2 => Init::NewUnaligned(len_class(u, cap)),
        3 => Init::WithCapacity(len_class(u, cap)),
        4 if is_usize => Init::MacroEmpty,
        5 if is_usize => Init::MacroFill(len_class(u, cap), value_class(u, width as u32)),
        6 if is_usize => Init::MacroList(values(u, width, 6)),
        4..=6 => Init::New(len_class(u, cap)),
        _ => Init::FromSlice(values(u, width, cap)),
    };
    let n_ops = u.int_in_range(0usize..=60).unwrap_or(0);
    let mut ops = vec![];
    for _ in 0..n_ops {
        if u.is_empty() {
            break;
        }
        let sel = u.arbitrary::<u16>().unwrap_or(0) as usize;
        let op = match u.int_in_range(0u8..=41).unwrap_or(0) {
            0..=5 => Op::Push(value_class(u, width as u32)),
            6 => Op::PushBad,
            7 | 8 => Op::Pop,
            9..=13 => Op::Set(sel, value_class(u, width as u32)),
            14 => Op::SetBadValue(sel),
            15 => Op::SetOob(sel as u8, value_class(u, width as u32)),
            16 | 17 => Op::Get(sel),
            18 => Op::GetOob(sel as u8),
            19..=21 => Op::Resize(len_class(u, cap + 50), value_class(u, width as u32)),
            22 => Op::ResizeBad(len_class(u, cap)),
            23 => Op::Clear,
            24 | 25 => Op::Extend(values(u, width, 70)),
            26 | 27 => Op::IterFrom(sel),
            28 => Op::IterFromOob(sel as u8),
            29..=31 => Op::UncheckedFrom(sel),
            32..=34 => Op::RevUncheckedFrom(sel),
            35 => Op::EqCopy,
            36 => Op::NeOne(sel),
            37 => Op::NeWidth,
            38 => Op::FromSliceAll,
            40 => Op::Scribble(u.arbitrary::<u64>().unwrap_or(!0) | 1),
            39 => {
                if sel % 2 == 0 {
                    Op::BoxRoundTrip
                } else {
                    Op::CloneIt
                }
            }
            _ => {
                let k = u.int_in_range(0usize..=8).unwrap_or(0);
                let mut s = vec![];
                for _ in 0..k {
                    let sel = u.arbitrary::<u16>().unwrap_or(0) as usize;
                    s.push(match u.int_in_range(0u8..=9).unwrap_or(0) {
                        0..=3 => AOp::Set(sel, value_class(u, width as u32)),
                        4..=5 => AOp::Get(sel),
                        6 => AOp::SetBadValue(sel),
                        7 => AOp::SetOob(sel as u8, value_class(u, width as u32)),
                        8 => AOp::GetOob(sel as u8),
                        _ => AOp::Reset(sel % 2 == 0),
                    });
                }
                Op::Atomic(sel % 2 == 0, s)
            }
        };
        ops.push(op);
    }
    (width, init, ops)
}

/// Per-word-type pieces that need concrete trait bounds.
#[allow(clippy::ptr_arg)]
pub trait C05Ext: TW {
    /// `from_slice` into every word type.
    fn from_slice_all(cx: &mut Ctx, v: &BitFieldVec<Self>, model: &[u128]) -> R;
    /// run an atomic script (identity for word types without an atomic twin)
    fn atomic_script(cx: &mut Ctx, v: BitFieldVec<Self>, model: &mut Vec<u128>, width: usize, boxed: bool, script: &[AOp]) -> R<BitFieldVec<Self>>;
    fn macro_init(_cx: &mut Ctx, _width: usize, _init: &Init) -> R<Option<BitFieldVec<Self>>> {
        Ok(None)
    }
    /// `from_slice` of a plain `Vec<W>` (a bit-field slice of width `W::BITS`)
    fn from_plain(plain: &Vec<Self>) -> anyhow::Result<BitFieldVec<Self>>;
}

fn from_slice_to<W: TW + CastableInto<W2>, W2: TW>(cx: &mut Ctx, v: &BitFieldVec<W>, model: &[u128]) -> R {
    let maxlen = model.iter().map(|x| bitlen(*x)).max().unwrap_or(0);
    let r = cx.must("from_slice", || BitFieldVec::<W2>::from_slice(v))?;
    if maxlen > W2::WBITS {
        cx.check(r.is_err(), "from_slice.err", || format!("from_slice::<{}> accepted a {}-bit value", W2::NAME, maxlen))
    } else {
        match r {
            Err(e) => Err(Fail::mismatch("from_slice.ok", format!("from_slice::<{}> rejected values of at most {} bits: {e}", W2::NAME, maxlen))),
            Ok(r) => {
                cx.check_eq(BitFieldSliceCore::len(&r), model.len(), "from_slice.len", || format!("from_slice::<{}> len", W2::NAME))?;
                cx.check(r.bit_width() >= maxlen && r.bit_width() <= W2::WBITS, "from_slice.width", || format!("from_slice::<{}> width {} for max bit length {}", W2::NAME, r.bit_width(), maxlen))?;
                for (i, m) in model.iter().enumerate() {
                    let g = cx.must("from_slice.get", || r.get(i))?;
                    cx.check_eq(g.to128(), *m, "from_slice.get", || format!("from_slice::<{}>.get({i})", W2::NAME))?;
                }
                Ok(())
            }
        }
    }
}

fn ord(i: usize) -> Ordering {
    [Ordering::Relaxed, Ordering::SeqCst, Ordering::Relaxed, Ordering::SeqCst][i % 4]
}

/// The orderings that are legal both for a load and as the failure ordering of
/// a compare-exchange (get_atomic, set_atomic).
fn ord3(i: usize) -> Ordering {
    [Ordering::Relaxed, Ordering::SeqCst, Ordering::Acquire][i % 3]
}

fn atomic_ops<W: TWA, B: AsRef<[W::AtomicType]>>(cx: &mut Ctx, a: &mut AtomicBitFieldVec<W, B>, model: &mut [u128], width: usize, script: &[AOp]) -> R
where
    W::AtomicType: AtomicUnsignedInt + AsBytes,
{
    let len = model.len();
    cx.check_eq(BitFieldSliceCore::<W::AtomicType>::len(a), len, "atomic.len", || "len after conversion to atomic".into())?;
    cx.check_eq(BitFieldSliceCore::<W::AtomicType>::bit_width(a), width, "atomic.width", || "bit_width after conversion to atomic".into())?;
    for (k, op) in script.iter().enumerate() {
        match op {
            AOp::Get(sel) => {
                if len > 0 {
                    let i = sel * len >> 16;
                    let g = cx.must("get_atomic", || a.get_atomic(i, ord3(k)))?;
                    cx.check_eq(g.to128(), model[i], "get_atomic", || format!("get_atomic({i})"))?;
                }
            }
            AOp::Set(sel, v) => {
                // width 0: set is documented as undefined
                if len > 0 && width > 0 {
                    let i = sel * len >> 16;
                    cx.must("set_atomic", || a.set_atomic(i, W::from128(*v), ord3(k)))?;
                    model[i] = *v;
                }
            }
            AOp::SetBadValue(sel) => {
                if len > 0 && width > 0 && width < W::WBITS {
                    let i = sel * len >> 16;
                    let bad = W::from128(1u128 << width);
                    cx.must_panic("set_atomic(bad value)", || a.set_atomic(i, bad, ord(k)))?;
                }
            }
            AOp::SetOob(kx, v) => {
                if width > 0 {
                    let i = oob_index(*kx, len);
                    cx.must_panic("set_atomic(oob)", || a.set_atomic(i, W::from128(*v), ord(k)))?;
                }
            }
            AOp::GetOob(kx) => {
                let i = oob_index(*kx, len);
                cx.must_panic("get_atomic(oob)", || a.get_atomic(i, ord(k)))?;
            }
            AOp::Reset(par) => {
                if *par {
                    cx.must("par_reset_atomic", || a.par_reset_atomic(ord(k)))?;
                } else {
                    cx.must("reset_atomic", || a.reset_atomic(ord(k)))?;
                }
                model.iter_mut().for_each(|x| *x = 0);
            }
        }
        // the whole contents after every atomic op
        for (i, m) in model.iter().enumerate() {
            let g = cx.must("get_atomic", || a.get_atomic(i, Ordering::Relaxed))?;
            cx.check_eq(g.to128(), *m, "get_atomic", || format!("get_atomic({i}) after {:?}", op))?;
        }
    }
    Ok(())
}

fn atomic_script_impl<W: TWA>(cx: &mut Ctx, v: BitFieldVec<W>, model: &mut Vec<u128>, width: usize, boxed: bool, script: &[AOp]) -> R<BitFieldVec<W>>
where
    W::AtomicType: AtomicUnsignedInt + AsBytes,
{
    if boxed {
        let b: BitFieldVec<W, Box<[W]>> = cx.must("Vec->Box", || v.into())?;
        let mut a: AtomicBitFieldVec<W, Box<[W::AtomicType]>> = cx.must("Box->AtomicBox", || b.into())?;
        atomic_ops(cx, &mut a, model, width, script)?;
        let b: BitFieldVec<W, Box<[W]>> = cx.must("AtomicBox->Box", || a.into())?;
        cx.must("Box->Vec", || b.into())
    } else {
        let mut a: AtomicBitFieldVec<W> = cx.must("Vec->Atomic", || v.into())?;
        atomic_ops(cx, &mut a, model, width, script)?;
        cx.must("Atomic->Vec", || a.into())
    }
}

macro_rules! impl_ext {
    ($t:ty, atomic) => {
        impl C05Ext for $t {
            fn from_plain(plain: &Vec<Self>) -> anyhow::Result<BitFieldVec<Self>> {
                BitFieldVec::<$t>::from_slice(plain)
            }
            fn from_slice_all(cx: &mut Ctx, v: &BitFieldVec<Self>, model: &[u128]) -> R {
                from_slice_to::<$t, u8>(cx, v, model)?;
                from_slice_to::<$t, u16>(cx, v, model)?;
                from_slice_to::<$t, u32>(cx, v, model)?;
                from_slice_to::<$t, u64>(cx, v, model)?;
                from_slice_to::<$t, u128>(cx, v, model)?;
                from_slice_to::<$t, usize>(cx, v, model)
            }
            fn atomic_script(cx: &mut Ctx, v: BitFieldVec<Self>, model: &mut Vec<u128>, width: usize, boxed: bool, script: &[AOp]) -> R<BitFieldVec<Self>> {
                atomic_script_impl::<$t>(cx, v, model, width, boxed, script)
            }
        }
    };
}
impl_ext!(u8, atomic);
impl_ext!(u16, atomic);
impl_ext!(u32, atomic);
impl_ext!(u64, atomic);

impl C05Ext for u128 {
    fn from_plain(plain: &Vec<Self>) -> anyhow::Result<BitFieldVec<Self>> {
        BitFieldVec::<u128>::from_slice(plain)
    }
    fn from_slice_all(cx: &mut Ctx, v: &BitFieldVec<Self>, model: &[u128]) -> R {
        from_slice_to::<u128, u8>(cx, v, model)?;
        from_slice_to::<u128, u16>(cx, v, model)?;
        from_slice_to::<u128, u32>(cx, v, model)?;
        from_slice_to::<u128, u64>(cx, v, model)?;
        from_slice_to::<u128, u128>(cx, v, model)?;
        from_slice_to::<u128, usize>(cx, v, model)
    }
    fn atomic_script(_cx: &mut Ctx, v: BitFieldVec<Self>, _model: &mut Vec<u128>, _width: usize, _boxed: bool, _script: &[AOp]) -> R<BitFieldVec<Self>> {
        Ok(v)
    }
}

impl C05Ext for usize {
    fn from_plain(plain: &Vec<Self>) -> anyhow::Result<BitFieldVec<Self>> {
        BitFieldVec::<usize>::from_slice(plain)
    }
    fn from_slice_all(cx: &mut Ctx, v: &BitFieldVec<Self>, model: &[u128]) -> R {
        from_slice_to::<usize, u8>(cx, v, model)?;
        from_slice_to::<usize, u16>(cx, v, model)?;
        from_slice_to::<usize, u32>(cx, v, model)?;
        from_slice_to::<usize, u64>(cx, v, model)?;
        from_slice_to::<usize, u128>(cx, v, model)?;
        from_slice_to::<usize, usize>(cx, v, model)
    }
    fn atomic_script(cx: &mut Ctx, v: BitFieldVec<Self>, model: &mut Vec<u128>, width: usize, boxed: bool, script: &[AOp]) -> R<BitFieldVec<Self>> {
        atomic_script_impl::<usize>(cx, v, model, width, boxed, script)
    }
    fn macro_init(cx: &mut Ctx, width: usize, init: &Init) -> R<Option<BitFieldVec<Self>>> {
        use sux::bit_field_vec;
        Ok(match init {
            Init::MacroEmpty => Some(cx.must("bit_field_vec![w]", || bit_field_vec![width])?),
            Init::MacroFill(n, v) => {
                let (n, v) = (*n, *v as usize);
                Some(if n % 2 == 0 { cx.must("bit_field_vec![w => v; n]", || bit_field_vec![width => v; n])? } else { cx.must("bit_field_vec![w; n; v]", || bit_field_vec![width; n; v])? })
            }
            Init::MacroList(l) => {
                let g = |i: usize| -> usize { l[i] as usize };
                Some(cx.must("bit_field_vec![w; list]", || match l.len() {
                    0 => bit_field_vec![width],
                    1 => bit_field_vec![width; g(0)],
                    2 => bit_field_vec![width; g(0), g(1)],
                    3 => bit_field_vec![width; g(0), g(1), g(2)],
                    4 => bit_field_vec![width; g(0), g(1), g(2), g(3)],
                    5 => bit_field_vec![width; g(0), g(1), g(2), g(3), g(4)],
                    _ => bit_field_vec![width; g(0), g(1), g(2), g(3), g(4), g(5)],
                })?)
            }
            _ => None,
        })
    }
}

fn observe<W: TW, B: AsRef<[W]>>(cx: &mut Ctx, v: &BitFieldVec<W, B>, model: &[u128], width: usize, full: bool) -> R {
    let len = cx.must("len", || BitFieldSliceCore::len(v))?;
    cx.check_eq(len, model.len(), "len", || "len()".into())?;
    let bw = cx.must("bit_width", || BitFieldSliceCore::bit_width(v))?;
    cx.check_eq(bw, width, "bit_width", || "bit_width()".into())?;
    let e = cx.must("is_empty", || BitFieldSliceCore::is_empty(v))?;
    cx.check_eq(e, model.is_empty(), "is_empty", || "is_empty()".into())?;
    let step = if full || model.len() <= 300 { 1 } else { 17 };
    let mut i = 0;
    while i < model.len() {
        let g = cx.must("get", || v.get(i))?;
        cx.check_eq(g.to128(), model[i], "get", || format!("get({i}) [{} width {}]", W::NAME, width))?;
        i += step;
    }
    // iter(): exact-size hints before every next
    let mut it = cx.must("iter", || v.iter())?;
    for (i, m) in model.iter().enumerate() {
        let l = cx.must("iter.len", || it.len())?;
        cx.check_eq(l, model.len() - i, "iter.len", || format!("iter().len() before item {i}"))?;
        let x = cx.must("iter.next", || it.next())?;
        cx.check_eq(x.map(|x| x.to128()), Some(*m), "iter", || format!("iter() item {i} [{} width {}]", W::NAME, width))?;
    }
    let x = cx.must("iter.next", || it.next())?;
    cx.check(x.is_none(), "iter.end", || "iter() yields past the end".into())?;
    // the rest of the Iterator protocol (nth, skip, step_by, count, last, ...) against the model's iterator
    let script = model.iter().take(4).fold((model.len() as u64).wrapping_mul(0x9E37_79B9_7F4A_7C15) ^ width as u64, |a, x| a.rotate_left(9) ^ *x as u64);
    let want: Vec<u128> = model.to_vec();
    let it = cx.must("iter", || v.iter())?;
    iter_protocol(cx, "iter", it.map(|x| x.to128()), &want, script)?;
    if !model.is_empty() {
        let from = (script >> 20) as usize % (model.len() + 1);
        let it = cx.must("iter_from", || v.into_iter_from(from))?;
        iter_protocol(cx, "iter_from", it.map(|x| x.to128()), &want[from..], script ^ 0x5555)?;
    }
    Ok(())
}

fn run_w<W: C05Ext>(u: &mut Unstructured, cx: &mut Ctx) -> R {
    let (width, init, ops) = decode(u, W::WBITS, W::NAME == "usize");
    cx.hash(&(W::NAME, width, &init, &ops));
    cx.describe(|| format!("W={} width={} init={:?} ops={:?}", W::NAME, width, init, ops));
    cx.label(W::NAME);
    cx.label_if(width == 0, "width=0");
    cx.label_if(width == W::WBITS, "width=BITS");
    cx.label_if(width != 0 && W::WBITS % width != 0, "straddle-capable");

    let mut model: Vec<u128>;
    let mut v: BitFieldVec<W> = match &init {
        Init::New(n) => {
            model = vec![0; *n];
            cx.must("new", || BitFieldVec::<W>::new(width, *n))?
        }
        Init::NewUnaligned(n) => {
            model = vec![0; *n];
            cx.must("new_unaligned", || BitFieldVec::<W>::new_unaligned(width, *n))?
        }
        Init::WithCapacity(n) => {
            model = vec![];
            cx.label("with_capacity");
            cx.must("with_capacity", || BitFieldVec::<W>::with_capacity(width, *n))?
        }
        Init::MacroEmpty => {
            model = vec![];
            W::macro_init(cx, width, &init)?.expect("usize only")
        }
        Init::MacroFill(n, x) => {
            model = vec![*x; *n];
            W::macro_init(cx, width, &init)?.expect("usize only")
        }
        Init::MacroList(l) => {
            model = l.clone();
            W::macro_init(cx, width, &init)?.expect("usize only")
        }
        Init::FromSlice(l) => {
            // from a plain Vec<W> (a BitFieldSlice of width W::BITS); the
            // resulting width is the minimum sufficient one, so rebuild at the
            // requested width by pushing
            model = l.clone();
            let plain: Vec<W> = l.iter().map(|x| W::from128(*x)).collect();
            let r = cx.must("from_slice(Vec)", || W::from_plain(&plain))?;
            let r = match r {
                Ok(r) => r,
                Err(e) => return Err(Fail::mismatch("from_slice.ok", format!("from_slice of a Vec<{}> failed: {e}", W::NAME))),
            };
            let w2 = BitFieldSliceCore::bit_width(&r);
            observe(cx, &r, &model, w2, true)?;
            let mut b = cx.must("with_capacity", || BitFieldVec::<W>::new(width, 0))?;
            cx.must("extend", || b.extend(plain.iter().copied()))?;
            b
        }
    };
    observe(cx, &v, &model, width, true)?;

    let mask = mask128(width);
    let mut wrote = false;
    let mut read_after_write = false;
    let mut resized = false;
    let mut shrunk = false;
    for op in &ops {
        let len = model.len();
        match op {
            Op::Push(x) => {
                cx.must("push", || v.push(W::from128(*x)))?;
                model.push(*x);
                resized = true;
                wrote = true;
            }
            Op::PushBad => {
                if width < W::WBITS {
                    let bad = W::from128(1u128 << width);
                    cx.must_panic("push(bad value)", || v.push(bad))?;
                }
            }
            Op::Pop => {
                let g = cx.must("pop", || v.pop())?;
                let w = model.pop();
                cx.check_eq(g.map(|x| x.to128()), w, "pop", || "pop()".into())?;
                if w.is_some() {
                    resized = true;
                    shrunk = true;
                }
            }
            Op::Set(sel, x) => {
                // width 0: `set` is documented as undefined, never generated
                if len > 0 && width > 0 {
                    let i = sel * len >> 16;
                    cx.must("set", || v.set(i, W::from128(*x)))?;
                    model[i] = *x;
                    wrote = true;
                    if x >> (width - 1) == 1 {
                        cx.label("top_bit");
                    }
                }
            }
            Op::SetBadValue(sel) => {
                if len > 0 && width > 0 && width < W::WBITS {
                    let i = sel * len >> 16;
                    let bad = W::from128((1u128 << width) | (*sel as u128 & mask));
                    cx.must_panic("set(bad value)", || v.set(i, bad))?;
                    cx.label("rejected");
                }
            }
            Op::SetOob(k, x) => {
                if width > 0 {
                    let i = oob_index(*k, len);
                    cx.must_panic("set(oob)", || v.set(i, W::from128(*x)))?;
                    cx.label("rejected");
                }
            }
            Op::Get(sel) => {
                if len > 0 {
                    let i = sel * len >> 16;
                    let g = cx.must("get", || v.get(i))?;
                    cx.check_eq(g.to128(), model[i], "get", || format!("get({i})"))?;
                    read_after_write |= wrote;
                }
            }
            Op::GetOob(k) => {
                let i = oob_index(*k, len);
                cx.must_panic("get(oob)", || v.get(i))?;
                cx.label("rejected");
            }
            Op::Resize(n, x) => {
                cx.must("resize", || v.resize(*n, W::from128(*x)))?;
                if *n < len {
                    shrunk = true;
                } else if *n > len && shrunk {
                    cx.label("shrink_then_grow");
                }
                resized |= *n != len;
                model.resize(*n, *x);
            }
            Op::ResizeBad(n) => {
                if width < W::WBITS {
                    let bad = W::from128(1u128 << width);
                    cx.must_panic("resize(bad value)", || v.resize(*n, bad))?;
                }
            }
            Op::Clear => {
                cx.must("clear", || v.clear())?;
                shrunk |= len > 0;
                model.clear();
            }
            Op::Extend(l) => {
                let kind = (l.len() as u64).wrapping_mul(0x9E37) >> 3;
                let items: Vec<W> = l.iter().map(|x| W::from128(*x)).collect();
                cx.must("extend", || v.extend(hinted(&items, kind)))?;
                model.extend(l.iter().copied());
                // an extend left by a panic in the middle (a value that does not fit, when there is one):
                // the vector must be either untouched or hold the accepted prefix, and stay usable
                if width < W::WBITS && !l.is_empty() && l.len() % 3 == 0 {
                    let k = l.len() / 2;
                    let mut bad = items.clone();
                    bad[k] = W::from128(mask128(width) + 1);
                    let before = model.clone();
                    cx.must_panic("extend(bad value inside)", || v.extend(hinted(&bad, kind + 1)))?;
                    let got = cx.must("len", || BitFieldSliceCore::len(&v))?;
                    if got == before.len() + k {
                        model.extend(l[..k].iter().copied());
                        cx.label("extend_panic_keeps_prefix");
                    } else if got != before.len() {
                        return Err(Fail::mismatch("extend.panic", format!("extend.panic: after an extend that panicked at its item {k} the length is {got}; it was {} before", before.len())));
                    }
                }
                // an extend whose source iterator panics after k items, all of which fit: a plain vector keeps
                // the k items it had already received
                if !l.is_empty() && l.len() % 3 == 1 {
                    let k = l.len() / 2;
                    let src = items.clone();
                    let mut i = 0usize;
                    let it = std::iter::from_fn(move || {
                        if i == k {
                            panic!("source iterator failed");
                        }
                        i += 1;
                        Some(src[i - 1])
                    });
                    cx.must_panic("extend(panicking iterator)", || v.extend(it))?;
                    model.extend(l[..k].iter().copied());
                    cx.label("extend_source_panics");
                }
                resized |= !l.is_empty();
                wrote |= !l.is_empty();
            }
            Op::IterFrom(sel) => {
                let k = sel * (len + 1) >> 16;
                let got: Vec<u128> = cx.must("iter_from", || v.iter_from(k).map(|x| x.to128()).collect())?;
                cx.check(got == model[k..], "iter_from", || format!("iter_from({k}) differs"))?;
                let got: Vec<u128> = cx.must("into_iter_from", || (&v).into_iter_from(k).map(|x| x.to128()).collect())?;
                cx.check(got == model[k..], "into_iter_from", || format!("into_iter_from({k}) differs"))?;
                read_after_write |= wrote && k < len;
            }
            Op::IterFromOob(k) => {
                let i = oob_index(*k, len).max(len + 1);
                cx.must_panic("iter_from(oob)", || v.iter_from(i))?;
                cx.label("rejected");
            }
            Op::UncheckedFrom(sel) => {
                let k = sel * (len + 1) >> 16;
                let got: Vec<u128> = cx.must("unchecked_iter", || {
                    let mut it = (&v).into_unchecked_iter_from(k);
                    (k..len).map(|_| unsafe { it.next_unchecked() }.to128()).collect()
                })?;
                cx.check(got == model[k..], "unchecked_iter", || format!("unchecked forward iterator from {k} differs [{} width {}]: got {:x?} want {:x?}", W::NAME, width, &got[..got.len().min(4)], &model[k..][..got.len().min(4)]))?;
                read_after_write |= wrote && k < len;
            }
            Op::RevUncheckedFrom(sel) => {
                let k = sel * (len + 1) >> 16;
                let got: Vec<u128> = cx.must("rev_unchecked_iter", || {
                    let mut it = (&v).into_rev_unchecked_iter_from(k);
                    (0..k).map(|_| unsafe { it.next_unchecked() }.to128()).collect()
                })?;
                let want: Vec<u128> = model[..k].iter().rev().copied().collect();
                cx.check(got == want, "rev_unchecked_iter", || format!("unchecked reverse iterator from {k} differs [{} width {}]: got {:x?} want {:x?}", W::NAME, width, &got[..got.len().min(4)], &want[..got.len().min(4)]))?;
                if k == len {
                    let got: Vec<u128> = cx.must("rev_unchecked_iter", || {
                        let mut it = (&v).into_rev_unchecked_iter();
                        (0..k).map(|_| unsafe { it.next_unchecked() }.to128()).collect()
                    })?;
                    cx.check(got == want, "rev_unchecked_iter", || "unchecked reverse iterator from the end differs".into())?;
                }
                read_after_write |= wrote && k > 0;
            }
            Op::EqCopy => {
                let mut c = BitFieldVec::<W>::new(width, 0);
                c.extend(model.iter().map(|x| W::from128(*x)));
                let e = cx.must("eq", || v == c)?;
                cx.check(e, "eq", || "== false against a vector with the same width and values".into())?;
                let ne = cx.must("ne", || v != c)?;
                cx.check(!ne, "eq", || "!= true against an identical vector".into())?;
                // borrowed views over the very same words: equal with the same shape, different otherwise
                let words: &[W] = v.as_slice();
                let full = unsafe { BitFieldVec::<W, &[W]>::from_raw_parts(words, width, len) };
                let e = cx.must("eq", || v == full && full == v)?;
                cx.check(e, "eq.view", || "== false against a borrowed view of the same words, width and length".into())?;
                if len > 0 {
                    cx.label("eq_alias_views");
                    let prefix = unsafe { BitFieldVec::<W, &[W]>::from_raw_parts(words, width, len - 1) };
                    let e = cx.must("eq", || v == prefix || prefix == full)?;
                    cx.check(!e, "eq.view", || format!("== true between a vector of {len} elements and a view of its first {} elements over the same words", len - 1))?;
                    if width > 1 {
                        let narrow = unsafe { BitFieldVec::<W, &[W]>::from_raw_parts(words, width - 1, len) };
                        let e = cx.must("eq", || v == narrow || narrow == full)?;
                        cx.check(!e, "eq.view", || format!("== true between views of bit width {width} and {} over the same words", width - 1))?;
                    }
                }
            }
            Op::NeOne(sel) => {
                if len > 0 && width > 0 {
                    let i = sel * len >> 16;
                    let mut c = BitFieldVec::<W>::new(width, 0);
                    c.extend(model.iter().map(|x| W::from128(*x)));
                    c.set(i, W::from128(model[i] ^ 1));
                    let e = cx.must("eq", || v == c)?;
                    cx.check(!e, "eq.one", || format!("== true against a vector differing in element {i}"))?;
                }
            }
            Op::NeWidth => {
                if width < W::WBITS {
                    let mut c = BitFieldVec::<W>::new(width + 1, 0);
                    c.extend(model.iter().map(|x| W::from128(*x)));
                    let e = cx.must("eq", || v == c)?;
                    cx.check(!e, "eq.width", || "== true against a vector of a different bit width".into())?;
                }
            }
            Op::FromSliceAll => {
                W::from_slice_all(cx, &v, &model)?;
            }
            Op::BoxRoundTrip => {
                let b: BitFieldVec<W, Box<[W]>> = cx.must("Vec->Box", || v.into())?;
                observe(cx, &b, &model, width, false)?;
                v = cx.must("Box->Vec", || b.into())?;
            }
            Op::CloneIt => {
                let c = cx.must("clone", || v.clone())?;
                observe(cx, &c, &model, width, false)?;
            }
            Op::Scribble(pat) => {
                // "nothing is assumed about the content of the backend outside the bits of the vector"
                let used = len * width;
                let mut x = *pat;
                let dirtied = cx.must("as_mut_slice", || {
                    let s = BitFieldSliceMut::as_mut_slice(&mut v);
                    let mut dirtied = false;
                    for (i, w) in s.iter_mut().enumerate() {
                        let lo = i * W::WBITS;
                        if lo + W::WBITS <= used {
                            continue;
                        }
                        x ^= x << 13;
                        x ^= x >> 7;
                        x ^= x << 17;
                        let g = ((x as u128) << 64 | x.rotate_left(29) as u128) & mask128(W::WBITS);
                        let keep = if used > lo { mask128(used - lo) } else { 0 };
                        *w = W::from128((w.to128() & keep) | (g & !keep));
                        dirtied = true;
                    }
                    dirtied
                })?;
                cx.label_if(dirtied, "scribbled_beyond_len");
            }
            Op::Atomic(boxed, script) => {
                cx.label("atomic");
                v = W::atomic_script(cx, v, &mut model, width, *boxed, script)?;
            }
        }
        observe(cx, &v, &model, width, false)?;
    }
    cx.nontrivial_if(read_after_write && resized);
    cx.label_if(shrunk, "shrunk");
    observe(cx, &v, &model, width, true)?;
    Ok(())
}

impl Property for C05 {
    fn id(&self) -> &'static str {
        "C05"
    }
    fn plan(&self, tier: Tier) -> Vec<Segment> {
        let n = tier.pick(160_000, 3_200_000);
        vec![
            Segment::random("u8", n, &[0], 8, 500),
            Segment::random("u16", n, &[1], 8, 500),
            Segment::random("u32", n, &[2], 8, 500),
            Segment::random("u64", n, &[3], 8, 500),
            Segment::random("u128", n, &[4], 8, 500),
            Segment::random("usize", n, &[5], 8, 500),
        ]
    }
    fn rule(&self) -> &'static str {
        "case = (word type, bit width 0..=BITS, construction route, <=60 ops incl. atomic scripts, extend from iterators with exact / (0,Some(n)) / (0,Some(usize::MAX)) / (0,None) size hints, extends left by a panic (a value that does not fit: the vector is untouched or keeps the accepted prefix; a source iterator that panics after k fitting items: the k items stay, as in a plain vector), conversions and a Scribble op that writes garbage through the safe as_mut_slice() into the backend bits beyond len*width) decoded from bytes; model = Vec of values; len/bit_width/every get/iter with exact length hints compared after every op; values that do not fit and indices out of range must panic and leave the contents unchanged. set() with width 0 is never generated (documented as undefined). Every iterator is also driven through a generated script of next/nth/size_hint steps and one consuming adaptor (count, last, collect, step_by, skip, fold) in lock-step with the model's iterator. Equality is also taken between the vector and borrowed views over its own words (same shape: equal; one element shorter or one bit narrower: different). Non-trivial: at least one write followed by a later read and at least one growth or shrink; distinct = distinct hash of the decoded history."
    }
    fn run(&self, data: &[u8], cx: &mut Ctx) -> R {
        let (mode, rest) = data.split_first().unwrap_or((&0, &[]));
        let mut u = Unstructured::new(rest);
        match mode % 6 {
            0 => run_w::<u8>(&mut u, cx),
            1 => run_w::<u16>(&mut u, cx),
            2 => run_w::<u32>(&mut u, cx),
            3 => run_w::<u64>(&mut u, cx),
            4 => run_w::<u128>(&mut u, cx),
            _ => run_w::<usize>(&mut u, cx),
        }
    }
}
