//! C10 — bulk vector operations equal their documented element-by-element definitions.

use crate::words::*;
use common_traits::{AsBytes, AtomicUnsignedInt};
use engine::*;
use std::sync::atomic::Ordering;
use sux::bits::{AtomicBitFieldVec, AtomicBitVec, BitFieldVec, BitVec};
use sux::traits::bit_field_slice::{AtomicBitFieldSlice, BitFieldSlice, BitFieldSliceCore, BitFieldSliceMut};
use sux::traits::BitCount;

pub struct C10;

/// Open known finding: try_chunks_mut on a vector of bit width zero panics.
pub const KF_CHUNKS_W0: &str = "try-chunks-mut-width0";

/// A vector of `len` fields with non-periodic contents, optionally with
/// spare words (built longer and shrunk).
fn make<W: TW>(width: usize, len: usize, salt: u64, spare: usize) -> BitFieldVec<W> {
    let mut v = BitFieldVec::<W>::new(width, len + spare);
    for i in 0..len + spare {
        if width > 0 {
            v.set(i, W::from128(field_hash(i, salt, width)));
        }
    }
    if spare > 0 {
        v.resize(len, W::ZERO);
    }
    v
}

fn contents<W: TW, B: AsRef<[W]>>(v: &BitFieldVec<W, B>) -> Vec<u128> {
    (0..BitFieldSliceCore::len(v)).map(|i| v.get(i).to128()).collect()
}

// ---- (a) copy -----------------------------------------------------------------

fn one_copy<W: TW>(cx: &mut Ctx, src: &BitFieldVec<W>, dst0: &BitFieldVec<W>, from: usize, to: usize, len: usize) -> R {
    let width = BitFieldSliceCore::bit_width(src);
    let sv = contents(src);
    let mut want = contents(dst0);
    let k = len.min(sv.len() - from).min(want.len() - to);
    for i in 0..k {
        want[to + i] = sv[from + i];
    }
    let mut dst = dst0.clone();
    cx.must("copy", || src.copy(from, &mut dst, to, len))?;
    let got = contents(&dst);
    if got != want {
        let bad: Vec<usize> = (0..got.len()).filter(|i| got[*i] != want[*i]).collect();
        return Err(Fail::mismatch("copy", format!("copy: BitFieldVec<{}> width {width}: copy(from={from}, dst, to={to}, len={len}) with src.len={} dst.len={}: {} elements differ from the element-wise definition, first at index {} (got {:#x}, expected {:#x})", W::NAME, sv.len(), want.len(), bad.len(), bad[0], got[bad[0]], want[bad[0]])));
    }
    cx.check(contents(src) == sv, "copy.src", || "copy modified its source".into())?;
    Ok(())
}

fn copy_exhaustive<W: TW>(cx: &mut Ctx, width: usize, from: usize) -> R {
    let n = 24;
    let src = make::<W>(width, n, 0x1111, 0);
    let dst = make::<W>(width, n, 0x2222, 0);
    for to in 0..=n {
        for len in 0..=n {
            one_copy(cx, &src, &dst, from, to, len)?;
        }
    }
    Ok(())
}

fn copy_random<W: TW>(cx: &mut Ctx, u: &mut Unstructured) -> R {
    let width = match u.int_in_range(0u8..=7).unwrap_or(4) {
        0 => W::WBITS,
        1 => 1,
        2 => W::WBITS - 1,
        3 => 0,
        _ => u.int_in_range(1usize..=W::WBITS).unwrap_or(5),
    };
    let sl = len_class(u, 300);
    let dl = len_class(u, 300);
    let spare_s = [0usize, 0, 5, 40][u.int_in_range(0usize..=3).unwrap_or(0)];
    let spare_d = [0usize, 0, 5, 40][u.int_in_range(0usize..=3).unwrap_or(0)];
    let from = u.int_in_range(0..=sl).unwrap_or(0);
    let to = u.int_in_range(0..=dl).unwrap_or(0);
    let len = match u.int_in_range(0u8..=6).unwrap_or(2) {
        0 => usize::MAX / 128,
        1 => sl.max(dl) + 1,
        // "everything from `from` on": sums with `to` or `from` overflow
        2 => usize::MAX,
        3 => usize::MAX - to.min(from),
        _ => u.int_in_range(0..=sl.max(dl)).unwrap_or(3),
    };
    cx.hash(&("copy", W::NAME, width, sl, dl, spare_s, spare_d, from, to, len));
    cx.describe(|| format!("copy: W={} width={width} src.len={sl}(+{spare_s} spare) dst.len={dl}(+{spare_d} spare) from={from} to={to} len={len}", W::NAME));
    cx.label("copy");
    cx.label(W::NAME);
    let k = len.min(sl - from).min(dl - to);
    let sb = (from * width) % W::WBITS;
    let db = (to * width) % W::WBITS;
    cx.label_if(sb < db, "src_bit<dst_bit");
    cx.label_if(sb > db, "src_bit>dst_bit");
    cx.label_if(sb == db && k > 0, "src_bit=dst_bit");
    cx.label_if(spare_s + spare_d > 0, "spare_words");
    cx.label_if(sl != dl, "src.len!=dst.len");
    cx.nontrivial_if(k * width > W::WBITS);
    let src = make::<W>(width, sl, 0xABCD, spare_s);
    let dst = make::<W>(width, dl, 0x1234, spare_d);
    one_copy(cx, &src, &dst, from, to, len)
}

// ---- (b) apply_in_place ---------------------------------------------------------

fn apply_case<W: TW>(cx: &mut Ctx, u: &mut Unstructured) -> R {
    let width = match u.int_in_range(0u8..=5).unwrap_or(3) {
        0 => W::WBITS,
        1 | 2 => 1usize << u.int_in_range(0u32..=W::WBITS.trailing_zeros()).unwrap_or(0),
        // width 0 is not generated: apply_in_place is defined through set(), whose behaviour with width 0 is documented as undefined
        _ => u.int_in_range(1usize..=W::WBITS).unwrap_or(5),
    };
    let len = len_class(u, 200);
    let route = u.int_in_range(0u8..=4).unwrap_or(0);
    let bad_at = if u.int_in_range(0u8..=5).unwrap_or(1) == 0 && width > 0 && width < W::WBITS && len > 0 { Some(u.int_in_range(0..=len - 1).unwrap_or(0)) } else { None };
    cx.hash(&("apply", W::NAME, width, len, route, bad_at));
    cx.describe(|| format!("apply_in_place: W={} width={width} len={len} route={route} over-wide result at {bad_at:?}", W::NAME));
    cx.label("apply_in_place");
    cx.label(W::NAME);
    cx.nontrivial_if(len * width > W::WBITS);
    cx.label_if(width.is_power_of_two(), "width_pow2");
    // construction routes: fresh, or with spare words
    let mut v: BitFieldVec<W> = match route {
        0 | 1 => make::<W>(width, len, 7, 0),
        2 => {
            cx.label("spare_words");
            make::<W>(width, len, 7, 90)
        }
        3 => {
            cx.label("spare_words");
            let mut v = make::<W>(width, len + 50, 9, 0);
            v.clear();
            for i in 0..len {
                v.push(W::from128(field_hash(i, 7, width)));
            }
            v
        }
        _ => {
            cx.label("spare_words");
            let mut v = BitFieldVec::<W>::new_unaligned(width, len);
            for i in 0..len {
                if width > 0 {
                    v.set(i, W::from128(field_hash(i, 7, width)));
                }
            }
            v
        }
    };
    let before = contents(&v);
    let mask = mask128(width);
    let g = |arg: u128, idx: usize| -> u128 { (arg.wrapping_mul(3).wrapping_add(idx as u128 * 0x9E37 + 1)) & mask };
    let mut calls: Vec<u128> = vec![];
    if let Some(b) = bad_at {
        // a closure returning an over-wide value must be rejected by a panic
        cx.must_panic("apply_in_place(over-wide result)", || {
            let mut k = 0usize;
            v.apply_in_place(|x| {
                k += 1;
                if k - 1 == b {
                    W::from128(1u128 << width)
                } else {
                    x
                }
            })
        })?;
        return Ok(());
    }
    cx.must("apply_in_place", || {
        v.apply_in_place(|x| {
            let idx = calls.len();
            calls.push(x.to128());
            W::from128(g(x.to128(), idx))
        })
    })?;
    cx.check_eq(calls.len(), len, "apply.calls", || format!("apply_in_place on BitFieldVec<{}> width {width} len {len} (route {route}): number of calls of f", W::NAME))?;
    cx.check(calls == before, "apply.args", || format!("apply_in_place on BitFieldVec<{}> width {width} len {len} (route {route}): f was not called on the current values in index order", W::NAME))?;
    let want: Vec<u128> = before.iter().enumerate().map(|(i, x)| g(*x, i)).collect();
    let got = contents(&v);
    cx.check(got == want, "apply.result", || format!("apply_in_place on BitFieldVec<{}> width {width} len {len} (route {route}): stored results differ", W::NAME))?;
    cx.check_eq(BitFieldSliceCore::len(&v), len, "apply.len", || "len changed".into())?;
    // also through a chunk view (&mut [W] backend)
    Ok(())
}

// ---- (c) reset & co --------------------------------------------------------------

fn reset_case<W: TWA>(cx: &mut Ctx, u: &mut Unstructured) -> R
where
    W::AtomicType: AtomicUnsignedInt + AsBytes,
{
    let width = u.int_in_range(0usize..=W::WBITS).unwrap_or(5);
    let len = len_class(u, 400);
    let which = u.int_in_range(0u8..=3).unwrap_or(0);
    let spare = [0usize, 0, 30][u.int_in_range(0usize..=2).unwrap_or(0)];
    cx.hash(&("reset", W::NAME, width, len, which, spare));
    cx.describe(|| format!("reset: W={} width={width} len={len} which={which} spare={spare}", W::NAME));
    cx.label("reset");
    cx.label(W::NAME);
    cx.nontrivial_if(len * width > W::WBITS);
    let mut v = make::<W>(width, len, 3, spare);
    match which {
        0 => cx.must("reset", || v.reset())?,
        1 => cx.must("par_reset", || v.par_reset())?,
        2 => {
            let mut a: AtomicBitFieldVec<W> = v.into();
            cx.must("reset_atomic", || a.reset_atomic(Ordering::Relaxed))?;
            v = a.into();
        }
        _ => {
            let mut a: AtomicBitFieldVec<W> = v.into();
            cx.must("par_reset_atomic", || a.par_reset_atomic(Ordering::SeqCst))?;
            v = a.into();
        }
    }
    cx.check_eq(BitFieldSliceCore::len(&v), len, "reset.len", || "len changed by reset".into())?;
    cx.check(contents(&v).iter().all(|x| *x == 0), "reset", || format!("reset variant {which} on BitFieldVec<{}> width {width} len {len}: not all elements are zero", W::NAME))?;
    Ok(())
}

fn bitvec_case(cx: &mut Ctx, u: &mut Unstructured) -> R {
    let len = len_class(u, 3000);
    let seed: u64 = u.arbitrary().unwrap_or(5);
    let spare = [0usize, 0, 70, 200][u.int_in_range(0usize..=3).unwrap_or(0)];
    let ops: Vec<u8> = (0..u.int_in_range(1usize..=8).unwrap_or(3)).map(|_| u.int_in_range(0u8..=15).unwrap_or(0)).collect();
    cx.hash(&("bitvec", len, seed, spare, &ops));
    cx.describe(|| format!("BitVec bulk ops: len={len} seed={seed} spare={spare} ops={ops:?}"));
    cx.label("bitvec_bulk");
    cx.nontrivial_if(len > 64);
    cx.label_if(spare > 0, "spare_words");
    let mut x = seed | 1;
    let mut bit = move || {
        x ^= x << 13;
        x ^= x >> 7;
        x ^= x << 17;
        x & 1 == 1
    };
    let mut model: Vec<bool> = (0..len + spare).map(|_| bit()).collect();
    let mut bv: BitVec = model.iter().copied().collect();
    bv.resize(len, false);
    model.truncate(len);
    for op in &ops {
        match op {
            0 => {
                cx.must("fill", || bv.fill(true))?;
                model.iter_mut().for_each(|b| *b = true);
            }
            1 => {
                cx.must("par_fill", || bv.par_fill(false))?;
                model.iter_mut().for_each(|b| *b = false);
            }
            2 => {
                cx.must("flip", || bv.flip())?;
                model.iter_mut().for_each(|b| *b = !*b);
            }
            3 => {
                cx.must("par_flip", || bv.par_flip())?;
                model.iter_mut().for_each(|b| *b = !*b);
            }
            4 => {
                cx.must("reset", || bv.reset())?;
                model.iter_mut().for_each(|b| *b = false);
            }
            5 => {
                cx.must("par_reset", || bv.par_reset())?;
                model.iter_mut().for_each(|b| *b = false);
            }
            6 => {
                cx.must("par_fill", || bv.par_fill(true))?;
                model.iter_mut().for_each(|b| *b = true);
            }
            7..=9 => {
                // scatter a few bits so that counts are not trivial
                for k in 0..len.min(40) {
                    let i = (k * 2654435761usize) % len;
                    bv.set(i, k % 3 == 0);
                    model[i] = k % 3 == 0;
                }
            }
            _ => {
                // through the atomic twin
                let mut a: AtomicBitVec = std::mem::replace(&mut bv, BitVec::new(0)).into();
                match op % 4 {
                    0 => {
                        cx.must("atomic.fill", || a.fill(true, Ordering::Relaxed))?;
                        model.iter_mut().for_each(|b| *b = true);
                    }
                    1 => {
                        cx.must("atomic.par_flip", || a.par_flip(Ordering::Relaxed))?;
                        model.iter_mut().for_each(|b| *b = !*b);
                    }
                    2 => {
                        cx.must("atomic.par_fill", || a.par_fill(false, Ordering::SeqCst))?;
                        model.iter_mut().for_each(|b| *b = false);
                    }
                    _ => {
                        cx.must("atomic.flip", || a.flip(Ordering::SeqCst))?;
                        model.iter_mut().for_each(|b| *b = !*b);
                    }
                }
                let ones = model.iter().filter(|b| **b).count();
                let c = cx.must("atomic.count_ones", || a.count_ones())?;
                cx.check_eq(c, ones, "atomic.count_ones", || format!("AtomicBitVec::count_ones after op {op} (len {len})"))?;
                let c = cx.must("atomic.par_count_ones", || a.par_count_ones())?;
                cx.check_eq(c, ones, "atomic.par_count_ones", || format!("AtomicBitVec::par_count_ones after op {op} (len {len})"))?;
                bv = a.into();
            }
        }
        let got: Vec<bool> = cx.must("iter", || bv.iter().collect())?;
        cx.check(got == model, "bitvec.bulk", || format!("contents after bulk op {op} differ from the per-bit loop (len {len}, spare {spare})"))?;
        let ones = model.iter().filter(|b| **b).count();
        let c = cx.must("count_ones", || bv.count_ones())?;
        cx.check_eq(c, ones, "count_ones", || format!("count_ones after op {op} (len {len})"))?;
        let c = cx.must("par_count_ones", || bv.par_count_ones())?;
        cx.check_eq(c, ones, "par_count_ones", || format!("par_count_ones after op {op} (len {len}, spare {spare})"))?;
        let c = cx.must("count_zeros", || bv.count_zeros())?;
        cx.check_eq(c, len - ones, "count_zeros", || format!("count_zeros after op {op}"))?;
    }
    Ok(())
}

// ---- (d) try_chunks_mut ------------------------------------------------------------

fn chunks_case<W: TW>(cx: &mut Ctx, u: &mut Unstructured) -> R {
    let width = match u.int_in_range(0u8..=4).unwrap_or(2) {
        0 => 1usize << u.int_in_range(0u32..=W::WBITS.trailing_zeros()).unwrap_or(0),
        1 => 0,
        _ => u.int_in_range(1usize..=W::WBITS).unwrap_or(5),
    };
    let len = len_class(u, 300);
    let c = match u.int_in_range(0u8..=4).unwrap_or(2) {
        0 => W::WBITS,
        1 => len.max(1),
        2 => len + 1,
        _ => u.int_in_range(1usize..=len + 2).unwrap_or(4),
    };
    let spare = [0usize, 0, 33][u.int_in_range(0usize..=2).unwrap_or(0)];
    cx.hash(&("chunks", W::NAME, width, len, c, spare));
    cx.describe(|| format!("try_chunks_mut: W={} width={width} len={len} chunk_size={c} spare={spare}", W::NAME));
    cx.label("try_chunks_mut");
    cx.label(W::NAME);
    cx.label_if(width == 0, "width=0");
    if width == 0 && cx.excluded(KF_CHUNKS_W0) {
        return Ok(());
    }
    let mut v = make::<W>(width, len, 11, spare);
    let before = contents(&v);
    let should_ok = len <= c || (c * width) % W::WBITS == 0;
    cx.nontrivial_if(should_ok && len > c);
    let mask = mask128(width);
    // first pass: inspect the views; second pass: write through them
    let r = cx.must("try_chunks_mut", || {
        let mut out: Vec<Vec<u128>> = vec![];
        match v.try_chunks_mut(c) {
            Ok(it) => {
                for mut ch in it {
                    let l = BitFieldSliceCore::len(&ch);
                    let vals: Vec<u128> = (0..l).map(|t| ch.get(t).to128()).collect();
                    // write through the view: complement of the value
                    if width > 0 {
                        for t in 0..l {
                            ch.set(t, W::from128(!vals[t] & mask));
                        }
                    }
                    out.push(vals);
                }
                Some(out)
            }
            Err(()) => None,
        }
    })?;
    match r {
        None => cx.check(!should_ok, "chunks.err", || format!("try_chunks_mut({c}) on BitFieldVec<{}> width {width} len {len} returned Err although the documented condition holds", W::NAME))?,
        Some(chunks) => {
            cx.check(should_ok, "chunks.ok", || format!("try_chunks_mut({c}) on width {width} len {len} returned Ok although chunks are not word-aligned"))?;
            let want_n = if len == 0 { 0 } else { len.div_ceil(c) };
            cx.check_eq(chunks.len(), want_n, "chunks.count", || format!("number of chunks for len {len}, chunk size {c}, width {width}"))?;
            for (j, ch) in chunks.iter().enumerate() {
                let l = c.min(len - j * c);
                cx.check_eq(ch.len(), l, "chunks.len", || format!("length of chunk {j} (len {len}, chunk size {c}, width {width})"))?;
                cx.check(ch[..] == before[j * c..j * c + l], "chunks.read", || format!("chunk {j} does not read elements {}..{} (width {width}, W {})", j * c, j * c + l, W::NAME))?;
            }
            let want: Vec<u128> = before.iter().map(|x| !*x & mask).collect();
            cx.check(contents(&v) == want, "chunks.write", || format!("writes through the chunk views did not land on exactly the corresponding elements (len {len}, chunk size {c}, width {width}, W {})", W::NAME))?;
        }
    }
    Ok(())
}

// ---- (e) get_unaligned ---------------------------------------------------------------

fn unaligned_case<W: TW>(cx: &mut Ctx, u: &mut Unstructured) -> R {
    let b = W::WBITS;
    let width = match u.int_in_range(0u8..=4).unwrap_or(2) {
        0 => b,
        1 => b - 4,
        2 => b - 6,
        _ => u.int_in_range(0usize..=b - 6).unwrap_or(3),
    };
    let len = len_class(u, 300);
    cx.hash(&("unaligned", W::NAME, width, len));
    cx.describe(|| format!("get_unaligned: W={} width={width} len={len}", W::NAME));
    cx.label("get_unaligned");
    cx.label(W::NAME);
    cx.nontrivial_if(len * width > b);
    let mut v = BitFieldVec::<W>::new_unaligned(width, len);
    for i in 0..len {
        if width > 0 {
            v.set(i, W::from128(field_hash(i, 77, width)));
        }
    }
    for i in 0..len {
        let g = cx.must("get_unaligned", || v.get_unaligned(i))?;
        let w = v.get(i);
        cx.check_eq(g.to128(), w.to128(), "get_unaligned", || format!("BitFieldVec<{}>::get_unaligned({i}) vs get({i}) at width {width}, len {len}", W::NAME))?;
    }
    if width <= b - 6 {
        cx.must_panic("get_unaligned(len)", || v.get_unaligned(len))?;
    }
    Ok(())
}

/// The blanket implementations for `AsRef<[W]> + AsMut<[W]>`: plain vectors,
/// boxed slices and arrays are bit-field slices of width `W::BITS`.
fn plain_slice_case<W: TW>(cx: &mut Ctx, u: &mut Unstructured) -> R
where
    Vec<W>: BitFieldSliceMut<W> + BitFieldSlice<W>,
    Box<[W]>: BitFieldSliceMut<W> + BitFieldSlice<W>,
{
    let n = len_class(u, 70);
    let m = len_class(u, 70);
    let salt: u64 = u.arbitrary().unwrap_or(7);
    let val = |i: usize, s: u64| W::from128(field_hash(i, s, W::WBITS));
    let src: Vec<W> = (0..n).map(|i| val(i, salt)).collect();
    let dst0: Vec<W> = (0..m).map(|i| val(i, salt ^ 0xABCD)).collect();
    cx.hash(&(W::NAME, n, m, salt));
    cx.describe(|| format!("plain slices of {}: src.len={n} dst.len={m}", W::NAME));
    cx.nontrivial_if(n >= 2 && m >= 2);
    let bw = cx.must("bit_width", || BitFieldSliceCore::<W>::bit_width(&src))?;
    cx.check_eq(bw, W::WBITS, "slice.bit_width", || "bit_width of a plain slice".into())?;
    let l = cx.must("len", || BitFieldSliceCore::<W>::len(&src))?;
    cx.check_eq(l, n, "slice.len", || "len of a plain slice".into())?;
    for i in 0..n {
        let g = cx.must("get", || BitFieldSlice::<W>::get(&src, i))?;
        cx.check_eq(g.to128(), src[i].to128(), "slice.get", || format!("get({i}) on Vec<{}>", W::NAME))?;
    }
    cx.must_panic("get(len)", || BitFieldSlice::<W>::get(&src, n))?;
    // copy
    for _ in 0..3 {
        let from = index(u, n + 1);
        let to = index(u, m + 1);
        let len = match u.int_in_range(0u8..=6).unwrap_or(0) {
            0 => usize::MAX / 128,
            1 => n.max(m),
            // "everything from `from` on": sums with `to` or `from` overflow
            2 => usize::MAX,
            3 => usize::MAX - to.min(from),
            4 => (usize::MAX - to).saturating_add(1),
            _ => index(u, n.max(m) + 2),
        };
        let mut dst = dst0.clone();
        cx.must("copy", || BitFieldSliceMut::<W>::copy(&src, from, &mut dst, to, len))?;
        let mut want = dst0.clone();
        for i in 0..len.min(n - from).min(m - to) {
            want[to + i] = src[from + i];
        }
        cx.check(dst == want, "slice.copy", || format!("copy({from}, dst, {to}, {len}) between Vec<{}> of {n} and {m} elements", W::NAME))?;
        // the same through boxed slices
        let bsrc: Box<[W]> = src.clone().into_boxed_slice();
        let mut bdst: Box<[W]> = dst0.clone().into_boxed_slice();
        cx.must("copy", || BitFieldSliceMut::<W>::copy(&bsrc, from, &mut bdst, to, len))?;
        cx.check(bdst[..] == want[..], "slice.copy", || format!("copy({from}, dst, {to}, {len}) between Box<[{}]> of {n} and {m} elements", W::NAME))?;
    }
    // set / apply_in_place / reset / par_reset / try_chunks_mut
    let mut v = src.clone();
    if n > 0 {
        let i = index(u, n);
        let x = val(i, salt ^ 0x77);
        cx.must("set", || BitFieldSliceMut::<W>::set(&mut v, i, x))?;
        let mut want = src.clone();
        want[i] = x;
        cx.check(v == want, "slice.set", || format!("set({i}) on Vec<{}> of {n}", W::NAME))?;
        cx.must_panic("set(len)", || BitFieldSliceMut::<W>::set(&mut v, n, x))?;
        cx.check(v == want, "slice.set", || "a rejected set changed the slice".to_string())?;
    }
    let before = v.clone();
    let mut seen: Vec<u128> = vec![];
    cx.must("apply_in_place", || BitFieldSliceMut::<W>::apply_in_place(&mut v, |x| { seen.push(x.to128()); W::from128(!x.to128() & mask128(W::WBITS)) }))?;
    cx.check(seen == before.iter().map(|x| x.to128()).collect::<Vec<_>>(), "slice.apply", || format!("apply_in_place on Vec<{}> of {n}: f called on {:?}.. ({} calls)", W::NAME, &seen[..seen.len().min(4)], seen.len()))?;
    cx.check(v.iter().zip(before.iter()).all(|(a, b)| a.to128() == !b.to128() & mask128(W::WBITS)), "slice.apply", || "apply_in_place stored wrong results".to_string())?;
    let c = 1 + index(u, n + 2);
    {
        let chunks = cx.must("try_chunks_mut", || BitFieldSliceMut::<W>::try_chunks_mut(&mut v, c).map(|it| it.map(|ch| ch.len()).collect::<Vec<_>>()))?;
        match chunks {
            Ok(lens) => {
                let want: Vec<usize> = (0..n).step_by(c).map(|s| c.min(n - s)).collect();
                cx.check(lens == want, "slice.chunks", || format!("try_chunks_mut({c}) on {n} elements: chunk lengths {lens:?}"))?;
            }
            Err(()) => return Err(Fail::mismatch("slice.chunks", format!("slice.chunks: try_chunks_mut({c}) failed on a plain slice"))),
        }
    }
    let par: bool = u.arbitrary().unwrap_or(false);
    cx.must("reset", || if par { BitFieldSliceMut::<W>::par_reset(&mut v) } else { BitFieldSliceMut::<W>::reset(&mut v) })?;
    cx.check(v.len() == n && v.iter().all(|x| x.to128() == 0), "slice.reset", || format!("reset (par {par}) on Vec<{}> of {n}", W::NAME))?;
    Ok(())
}

/// A user-defined implementor of the public traits that supplies only the
/// required methods: copy, apply_in_place, set, get and mask are the trait's
/// default implementations.
struct UserVec<W> {
    v: Vec<W>,
    width: usize,
}
impl<W: TW> BitFieldSliceCore<W> for UserVec<W> {
    fn bit_width(&self) -> usize {
        self.width
    }
    fn len(&self) -> usize {
        self.v.len()
    }
}
impl<W: TW> BitFieldSlice<W> for UserVec<W> {
    unsafe fn get_unchecked(&self, index: usize) -> W {
        self.v[index]
    }
}
impl<W: TW> BitFieldSliceMut<W> for UserVec<W> {
    unsafe fn set_unchecked(&mut self, index: usize, value: W) {
        self.v[index] = value;
    }
    fn reset(&mut self) {
        self.v.iter_mut().for_each(|x| *x = W::from128(0));
    }
    fn par_reset(&mut self) {
        self.reset()
    }
    type ChunksMut<'a>
        = std::iter::Empty<&'a mut UserVec<W>>
    where
        Self: 'a;
    fn try_chunks_mut(&mut self, _chunk_size: usize) -> Result<Self::ChunksMut<'_>, ()> {
        Err(())
    }
    fn as_mut_slice(&mut self) -> &mut [W] {
        &mut self.v
    }
}
impl<'a, W: TW> BitFieldSliceCore<W> for &'a mut UserVec<W> {
    fn bit_width(&self) -> usize {
        self.width
    }
    fn len(&self) -> usize {
        self.v.len()
    }
}
impl<'a, W: TW> BitFieldSlice<W> for &'a mut UserVec<W> {
    unsafe fn get_unchecked(&self, index: usize) -> W {
        self.v[index]
    }
}
impl<'a, W: TW> BitFieldSliceMut<W> for &'a mut UserVec<W> {
    unsafe fn set_unchecked(&mut self, index: usize, value: W) {
        self.v[index] = value;
    }
    fn reset(&mut self) {
        self.v.iter_mut().for_each(|x| *x = W::from128(0));
    }
    fn par_reset(&mut self) {
        BitFieldSliceMut::<W>::reset(self)
    }
    type ChunksMut<'b>
        = std::iter::Empty<&'b mut UserVec<W>>
    where
        Self: 'b;
    fn try_chunks_mut(&mut self, _chunk_size: usize) -> Result<Self::ChunksMut<'_>, ()> {
        Err(())
    }
    fn as_mut_slice(&mut self) -> &mut [W] {
        &mut self.v
    }
}

/// The default methods of `BitFieldSliceMut`, which every type of the crate
/// overrides: a foreign implementor runs them.
fn default_methods_case<W: TW>(cx: &mut Ctx, u: &mut Unstructured) -> R {
    let b = W::WBITS;
    let ws = [0usize, 1, b / 2, b - 1, b, 3][u.int_in_range(0usize..=5).unwrap_or(2)].min(b);
    let wd = if u.arbitrary::<bool>().unwrap_or(true) { ws } else { u.int_in_range(ws..=b).unwrap_or(b) };
    let n = len_class(u, 40);
    let m = len_class(u, 40);
    let salt: u64 = u.arbitrary().unwrap_or(3);
    cx.hash(&("default-methods", W::NAME, ws, wd, n, m, salt));
    cx.describe(|| format!("default trait methods on a user-defined implementor of {}: src width {ws} len {n}, dst width {wd} len {m}", W::NAME));
    cx.label_if(ws != wd, "copy_between_widths");
    cx.label_if(ws == 0 && wd > 0, "copy_from_width0");
    cx.nontrivial_if(n >= 1 && m >= 1);
    let src = UserVec::<W> { v: (0..n).map(|i| W::from128(field_hash(i, salt, ws))).collect(), width: ws };
    let dst0: Vec<W> = (0..m).map(|i| W::from128(field_hash(i, salt ^ 0x99, wd) | (wd > 0) as u128)).collect();
    let mk = cx.must("mask", || BitFieldSliceMut::<W>::mask(&src))?;
    cx.check_eq(mk.to128(), mask128(ws), "default.mask", || format!("mask() at width {ws}"))?;
    for _ in 0..3 {
        let from = index(u, n + 1);
        let to = index(u, m + 1);
        let len = match u.int_in_range(0u8..=2).unwrap_or(0) {
            0 => usize::MAX,
            1 => n.max(m),
            _ => index(u, n.max(m) + 2),
        };
        let mut dst = UserVec::<W> { v: dst0.clone(), width: wd };
        cx.must("copy", || BitFieldSliceMut::<W>::copy(&src, from, &mut dst, to, len))?;
        let mut want = dst0.clone();
        for i in 0..len.min(n - from).min(m - to) {
            want[to + i] = src.v[from + i];
        }
        cx.check(dst.v == want, "default.copy", || format!("default copy({from}, dst, {to}, {len}) from width {ws} (len {n}) into width {wd} (len {m})"))?;
    }
    let mut v = UserVec::<W> { v: src.v.clone(), width: ws };
    let mut seen = vec![];
    cx.must("apply_in_place", || BitFieldSliceMut::<W>::apply_in_place(&mut v, |x| { seen.push(x.to128()); W::from128(!x.to128() & mask128(ws)) }))?;
    cx.check(seen == src.v.iter().map(|x| x.to128()).collect::<Vec<_>>(), "default.apply", || format!("default apply_in_place at width {ws}: f saw {} values", seen.len()))?;
    cx.check(v.v.iter().zip(src.v.iter()).all(|(a, o)| a.to128() == !o.to128() & mask128(ws)), "default.apply", || "default apply_in_place stored wrong results".to_string())?;
    if n > 0 && ws < b {
        let i = index(u, n);
        cx.must_panic("set(too large)", || BitFieldSliceMut::<W>::set(&mut v, i, W::from128(mask128(ws) + 1)))?;
        cx.must_panic("set(len)", || BitFieldSliceMut::<W>::set(&mut v, n, W::from128(0)))?;
        if ws > 0 {
            cx.must("set", || BitFieldSliceMut::<W>::set(&mut v, i, W::from128(1)))?;
            let g = cx.must("get", || BitFieldSlice::<W>::get(&v, i))?;
            cx.check_eq(g.to128(), 1, "default.set", || format!("get({i}) after set({i}, 1)"))?;
        }
    }
    Ok(())
}

macro_rules! by_word {
    ($sel:expr, $f:ident, $cx:expr, $u:expr) => {
        match $sel % 6 {
            0 => $f::<u8>($cx, $u),
            1 => $f::<u16>($cx, $u),
            2 => $f::<u32>($cx, $u),
            3 => $f::<u64>($cx, $u),
            4 => $f::<u128>($cx, $u),
            _ => $f::<usize>($cx, $u),
        }
    };
}

impl Property for C10 {
    fn id(&self) -> &'static str {
        "C10"
    }
    fn plan(&self, tier: Tier) -> Vec<Segment> {
        vec![
            // widths 1..=8 of u8 and 1..=16 of u16, from 0..=24: every (to, len) in [0,24]^2
            Segment::enumerated("copy-exhaustive-u8-u16", (8 + 16) * 25, &[0xF0]),
            Segment::random("copy", tier.pick(480_000, 8_000_000), &[0], 8, 40),
            Segment::random("apply_in_place", tier.pick(240_000, 4_000_000), &[1], 8, 40),
            Segment::random("reset", tier.pick(80_000, 3_000_000), &[2], 8, 40),
            Segment::random("bitvec-bulk", tier.pick(80_000, 3_000_000), &[3], 8, 60),
            Segment::random("try_chunks_mut", tier.pick(240_000, 4_000_000), &[4], 8, 40),
            Segment::random("get_unaligned", tier.pick(160_000, 3_000_000), &[5], 8, 40),
            // the parallel variants split only above 2 * RAYON_MIN_LEN = 200000 words
            Segment::enumerated("parallel-variants-on-large-vectors", tier.pick(16, 96), &[0xF1]),
            Segment::enumerated("parallel-counts-above-2^33-ones-in-small-pools", tier.pick(2, 4), &[0xF2]),
            // Vec<W> / Box<[W]> / [W; N] seen as bit-field slices of full width
            Segment::random("plain-slices", tier.pick(60_000, 1_000_000), &[6], 8, 60),
            // the trait's default methods, run by a user-defined implementor
            Segment::random("default-methods", tier.pick(60_000, 1_000_000), &[7], 8, 60),
        ]
    }
    fn rule(&self) -> &'static str {
        "cases decoded from bytes, vectors filled with non-periodic contents (field i = hash(i) masked): (a) copy(from,dst,to,len) for the six word types, generated widths, lengths, spare words, from<=src.len, to<=dst.len, len up to usize::MAX (incl. usize::MAX - to + 1), against the element loop on a clone, all of dst compared, src unchanged; plus the complete enumeration for u8 (widths 1..8) and u16 (widths 1..16) with src.len=dst.len=24 over every (from,to,len) in [0,24]^3; (b) apply_in_place with a recording closure on fresh vectors and vectors with spare words (after resize/clear+push/new_unaligned): exactly len calls, in index order, on the current values, results stored, over-wide result must panic; (c) reset/par_reset/reset_atomic/par_reset_atomic and BitVec fill/par_fill/flip/par_flip/reset/par_reset/count_ones/par_count_ones and the atomic twins against per-element loops; (d) try_chunks_mut(c>=1): Ok exactly when len<=c or c*width is a multiple of W::BITS, chunk count/lengths/reads, writes land on exactly the corresponding elements; (e) get_unaligned(i)==get(i) on new_unaligned vectors for widths <= BITS-6, BITS-4, BITS. (f) the parallel variants (par_count_ones, par_flip, par_fill, par_reset, atomic twins, BitFieldVec par_reset/par_reset_atomic) on 12.8-64 Mbit vectors, i.e. above the 2 x 100000-word threshold below which rayon does not split them, in rayon pools of 1, 2, 3 and the default number of threads; and all-ones vectors of 2^33..2^34+2^32 bits counted in pools of 1-2 threads (a single leaf above 2^32 ones). (g) the blanket implementations for plain Vec<W>/Box<[W]> (full-width bit-field slices): get/set/copy/apply_in_place/try_chunks_mut/reset/par_reset against the slice itself. (h) the trait's default copy/apply_in_place/set/mask, which every type of the crate overrides, run by a harness-defined implementor (also between different bit widths, source width 0 included). Non-trivial: the operation touches at least 2 words; distinct = distinct hash of the decoded case."
    }
    fn run(&self, data: &[u8], cx: &mut Ctx) -> R {
        let (mode, rest) = data.split_first().unwrap_or((&0, &[]));
        if *mode == 0xF0 {
            let mut b = [0u8; 8];
            b[..rest.len().min(8)].copy_from_slice(&rest[..rest.len().min(8)]);
            let j = (u64::from_le_bytes(b) % ((8 + 16) * 25)) as usize;
            let from = j % 25;
            let wi = j / 25;
            cx.hash(&("copy-ex", j));
            cx.label("copy-exhaustive");
            cx.nontrivial();
            return if wi < 8 {
                cx.describe(|| format!("copy exhaustive: u8 width {} from {from}, every (to,len) in [0,24]^2", wi + 1));
                copy_exhaustive::<u8>(cx, wi + 1, from)
            } else {
                cx.describe(|| format!("copy exhaustive: u16 width {} from {from}, every (to,len) in [0,24]^2", wi - 7));
                copy_exhaustive::<u16>(cx, wi - 7, from)
            };
        }
        if *mode == 0xF2 {
            let mut b = [0u8; 8];
            b[..rest.len().min(8)].copy_from_slice(&rest[..rest.len().min(8)]);
            return par_dense_huge_case(cx, u64::from_le_bytes(b));
        }
        if *mode == 0xF1 {
            let mut b = [0u8; 8];
            b[..rest.len().min(8)].copy_from_slice(&rest[..rest.len().min(8)]);
            return par_large_case(cx, u64::from_le_bytes(b));
        }
        if *mode == 7 {
            let mut u = Unstructured::new(rest);
            let sel = u.int_in_range(0u8..=5).unwrap_or(3);
            cx.label("default-methods");
            return by_word!(sel, default_methods_case, cx, &mut u);
        }
        if *mode == 6 {
            let mut u = Unstructured::new(rest);
            let sel = u.int_in_range(0u8..=5).unwrap_or(3);
            cx.label("plain-slice");
            return by_word!(sel, plain_slice_case, cx, &mut u);
        }
        let mut u = Unstructured::new(rest);
        let sel = u.int_in_range(0u8..=5).unwrap_or(3);
        match *mode {
            0 => by_word!(sel, copy_random, cx, &mut u),
            1 => by_word!(sel, apply_case, cx, &mut u),
            2 => match sel % 5 {
                0 => reset_case::<u8>(cx, &mut u),
                1 => reset_case::<u16>(cx, &mut u),
                2 => reset_case::<u32>(cx, &mut u),
                3 => reset_case::<u64>(cx, &mut u),
                _ => reset_case::<usize>(cx, &mut u),
            },
            3 => bitvec_case(cx, &mut u),
            4 => by_word!(sel, chunks_case, cx, &mut u),
            _ => by_word!(sel, unaligned_case, cx, &mut u),
        }
    }
}

/// Parallel variants on vectors large enough for rayon to split the work
/// (`with_min_len(RAYON_MIN_LEN)`, 100000 words per leaf).
fn par_large_case(cx: &mut Ctx, j: u64) -> R {
    // the pool size decides into how many leaves rayon splits the work
    let threads = [0usize, 1, 2, 3][(j / 2) as usize % 4];
    cx.label(&format!("pool:{threads}"));
    in_pool(cx, threads, |cx| par_large_inner(cx, j))
}

/// All-ones vectors with more than 2^33 ones counted in small pools: a single
/// rayon leaf then holds more than 2^32 ones.
fn par_dense_huge_case(cx: &mut Ctx, j: u64) -> R {
    let (len, threads) = [((1usize << 33) + (1 << 30) + 133, 1usize), ((1usize << 33) + 64 * 3 + 1, 1), ((1usize << 34) + (1 << 31) + 77, 2), ((1usize << 34) + (1 << 32), 1)][j as usize % 4];
    cx.hash(&("par-dense-huge", j));
    cx.describe(|| format!("all-ones vector of {len} bits, parallel counts in a rayon pool of {threads} thread(s)"));
    cx.label("ones>2^33");
    cx.nontrivial();
    in_pool(cx, threads, |cx| {
        let mut b = cx.must("with_value", || BitVec::with_value(len, true))?;
        let c = cx.must("par_count_ones", || b.par_count_ones())?;
        cx.check_eq(c, len, "par_count_ones.huge", || format!("BitVec::par_count_ones on {len} ones in a pool of {threads}"))?;
        cx.must("set", || b.set(len / 2, false))?;
        let a: AtomicBitVec = cx.must("Vec->Atomic", || b.into())?;
        let c = cx.must("atomic.par_count_ones", || a.par_count_ones())?;
        cx.check_eq(c, len - 1, "atomic.par_count_ones.huge", || format!("AtomicBitVec::par_count_ones on {} ones in a pool of {threads}", len - 1))?;
        let c = cx.must("atomic.count_ones", || a.count_ones())?;
        cx.check_eq(c, len - 1, "atomic.count_ones.huge", || format!("AtomicBitVec::count_ones on {} ones", len - 1))?;
        let mut b: BitVec = cx.must("Atomic->Vec", || a.into())?;
        cx.must("par_flip", || b.par_flip())?;
        let c = cx.must("par_count_ones", || b.par_count_ones())?;
        cx.check_eq(c, 1, "par_flip.huge", || format!("par_count_ones after par_flip of {} ones", len - 1))?;
        Ok(())
    })
}

fn par_large_inner(cx: &mut Ctx, j: u64) -> R {
    let words = [200_000usize, 200_001, 400_003, 250_000, 1_000_000, 199_999][j as usize % 6];
    let residual = [37usize, 0, 1, 63, 17, 5][(j / 6) as usize % 6];
    let len = words * 64 + residual;
    cx.hash(&("par-large", j));
    cx.describe(|| format!("parallel variants: {words} full words + {residual} bits, pattern {}", j % 4));
    cx.label("parallel_large");
    cx.nontrivial();
    let mut x = 0x9E37_79B9_7F4A_7C15u64 ^ j;
    let mut next = || {
        x ^= x << 13;
        x ^= x >> 7;
        x ^= x << 17;
        x as usize
    };
    let nw = len.div_ceil(64);
    let mut w: Vec<usize> = (0..nw).map(|_| next()).collect();
    if j % 4 == 1 {
        // ones only in the partial last word
        w.iter_mut().for_each(|x| *x = 0);
        if residual > 0 {
            w[nw - 1] = !0;
        }
    }
    // garbage beyond len in the last word stays there (nothing may trust or change it)
    let tail_garbage = if residual > 0 { w[nw - 1] & (!0usize << residual) } else { 0 };
    let logical = |w: &[usize]| -> usize {
        let mut c: usize = w[..len / 64].iter().map(|x| x.count_ones() as usize).sum();
        if residual > 0 {
            c += (w[nw - 1] & ((1usize << residual) - 1)).count_ones() as usize;
        }
        c
    };
    let ones = logical(&w);
    let mut bv = unsafe { BitVec::from_raw_parts(w, len) };
    let c = cx.must("par_count_ones", || bv.par_count_ones())?;
    cx.check_eq(c, ones, "par_count_ones", || format!("par_count_ones on {len} bits"))?;
    let c = cx.must("count_ones", || bv.count_ones())?;
    cx.check_eq(c, ones, "count_ones", || format!("count_ones on {len} bits"))?;
    cx.must("par_flip", || bv.par_flip())?;
    let c = cx.must("par_count_ones", || bv.par_count_ones())?;
    cx.check_eq(c, len - ones, "par_flip", || format!("par_count_ones after par_flip on {len} bits"))?;
    {
        let ws: &[usize] = bv.as_ref();
        cx.check_eq(logical(ws), len - ones, "par_flip", || "logical ones after par_flip".into())?;
        if residual > 0 {
            cx.check_eq(ws[nw - 1] & (!0usize << residual), tail_garbage, "par_flip.tail", || "par_flip changed bits beyond len".into())?;
        }
    }
    // through the atomic twin
    let mut a: AtomicBitVec = bv.into();
    let c = cx.must("atomic.par_count_ones", || a.par_count_ones())?;
    cx.check_eq(c, len - ones, "atomic.par_count_ones", || format!("AtomicBitVec::par_count_ones on {len} bits"))?;
    cx.must("atomic.par_flip", || a.par_flip(Ordering::Relaxed))?;
    let c = cx.must("atomic.count_ones", || a.count_ones())?;
    cx.check_eq(c, ones, "atomic.par_flip", || format!("count after AtomicBitVec::par_flip on {len} bits"))?;
    cx.must("atomic.par_fill", || a.par_fill(true, Ordering::Relaxed))?;
    let c = cx.must("atomic.par_count_ones", || a.par_count_ones())?;
    cx.check_eq(c, len, "atomic.par_fill", || format!("par_count_ones after AtomicBitVec::par_fill(true) on {len} bits"))?;
    cx.must("atomic.par_reset", || a.par_reset(Ordering::Relaxed))?;
    let c = cx.must("atomic.count_ones", || a.count_ones())?;
    cx.check_eq(c, 0, "atomic.par_reset", || format!("count after AtomicBitVec::par_reset on {len} bits"))?;
    let mut bv: BitVec = a.into();
    cx.must("par_fill", || bv.par_fill(true))?;
    let c = cx.must("par_count_ones", || bv.par_count_ones())?;
    cx.check_eq(c, len, "par_fill", || format!("par_count_ones after par_fill(true) on {len} bits"))?;
    cx.must("par_reset", || bv.par_reset())?;
    let c = cx.must("count_ones", || bv.count_ones())?;
    cx.check_eq(c, 0, "par_reset", || format!("count_ones after par_reset on {len} bits"))?;
    if residual > 0 {
        let ws: &[usize] = bv.as_ref();
        cx.check_eq(ws[nw - 1] & (!0usize << residual), tail_garbage, "par.tail", || "a parallel bulk operation changed bits beyond len".into())?;
    }
    // BitFieldVec::par_reset / par_reset_atomic on >= 200000 words
    let width = [7usize, 64, 1, 33][(j / 3) as usize % 4];
    let n = (words * 64 + residual) / width;
    let mut v = BitFieldVec::<usize>::new(width, n);
    for i in (0..n).step_by(97) {
        v.set(i, (i * 0x9E37) & mask128(width) as usize);
    }
    v.set(n - 1, mask128(width) as usize);
    if j % 2 == 0 {
        cx.must("par_reset", || v.par_reset())?;
    } else {
        let mut a: AtomicBitFieldVec<usize> = v.into();
        cx.must("par_reset_atomic", || a.par_reset_atomic(Ordering::Relaxed))?;
        v = a.into();
    }
    let nz = cx.must("scan", || (0..n).step_by(53).chain([n - 1, n - 2, 0]).filter(|i| v.get(*i) != 0).count())?;
    cx.check_eq(nz, 0, "par_reset.large", || format!("BitFieldVec par_reset on {n} x {width} bits left non-zero elements"))?;
    Ok(())
}
