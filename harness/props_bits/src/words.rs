//! Word-type plumbing shared by the packed-vector properties.

use common_traits::{AsBytes, AtomicUnsignedInt, IntoAtomic};
use std::fmt::Debug;
use std::hash::Hash;
use sux::traits::Word;

/// A word type usable in `BitFieldVec`, with conversions to a universal
/// `u128` model value.
pub trait TW: Word + Hash + Debug + Send + Sync + 'static {
    const NAME: &'static str;
    const WBITS: usize;
    fn from128(v: u128) -> Self;
    fn to128(self) -> u128;
}

macro_rules! impl_tw {
    ($($t:ty),*) => {$(
        impl TW for $t {
            const NAME: &'static str = stringify!($t);
            const WBITS: usize = <$t>::BITS as usize;
            #[inline(always)]
            fn from128(v: u128) -> Self { v as $t }
            #[inline(always)]
            fn to128(self) -> u128 { self as u128 }
        }
    )*};
}
impl_tw!(u8, u16, u32, u64, u128, usize);

/// Word types that also have an atomic twin.
pub trait TWA: TW + IntoAtomic
where
    Self::AtomicType: AtomicUnsignedInt + AsBytes,
{
}
impl TWA for u8 {}
impl TWA for u16 {}
impl TWA for u32 {}
impl TWA for u64 {}
impl TWA for usize {}

pub fn mask128(width: usize) -> u128 {
    if width == 0 {
        0
    } else if width >= 128 {
        u128::MAX
    } else {
        (1u128 << width) - 1
    }
}

/// Number of significant bits.
pub fn bitlen(v: u128) -> usize {
    (128 - v.leading_zeros()) as usize
}

/// Non-periodic pseudo-random contents: field `i` = hash(i, salt) masked.
pub fn field_hash(i: usize, salt: u64, width: usize) -> u128 {
    let mut x = (i as u64).wrapping_add(salt).wrapping_mul(0x9E37_79B9_7F4A_7C15);
    x ^= x >> 29;
    x = x.wrapping_mul(0xBF58_476D_1CE4_E5B9);
    x ^= x >> 32;
    let hi = x.wrapping_mul(0x94D0_49BB_1331_11EB) ^ (x >> 17);
    ((hi as u128) << 64 | x as u128) & mask128(width)
}

/// Runs `f` inside a rayon pool of `threads` threads (0 = the global pool):
/// the number of leaves a parallel iterator is split into depends on it.
/// The calling thread blocks in `install`, so `cx` stays exclusively borrowed.
pub fn in_pool<T: Send>(cx: &mut engine::Ctx, threads: usize, f: impl FnOnce(&mut engine::Ctx) -> T + Send) -> T {
    if threads == 0 {
        return f(cx);
    }
    struct P(*mut engine::Ctx);
    unsafe impl Send for P {}
    let p = P(cx as *mut engine::Ctx);
    rayon::ThreadPoolBuilder::new().num_threads(threads).build().expect("rayon pool").install(move || {
        let p = p;
        f(unsafe { &mut *p.0 })
    })
}

/// The same items behind iterators with different (honest) `size_hint`s:
/// exact, `(0, Some(n))`, `(0, Some(usize::MAX))` (an unbounded range cut by a
/// sentinel), `(0, None)`, and a chain.
pub fn hinted<'a, T: Copy + 'a>(items: &'a [T], kind: u64) -> Box<dyn Iterator<Item = T> + 'a> {
    match kind % 5 {
        0 => Box::new(items.iter().copied()),
        1 => Box::new(items.iter().copied().filter(|_| true)),
        2 => Box::new((0..usize::MAX).map_while(move |i| items.get(i).copied())),
        3 => {
            let mut i = 0;
            Box::new(std::iter::from_fn(move || {
                i += 1;
                items.get(i - 1).copied()
            }))
        }
        _ => {
            let h = items.len() / 2;
            Box::new(items[..h].iter().copied().chain(items[h..].iter().copied().skip_while(|_| false)))
        }
    }
}
