//! C13 — concurrent writers to distinct elements never interfere, in any interleaving.
//!
//! The harness owns the schedule: with the `sched_point()` hook the writer
//! threads are serialised by a cooperative scheduler and the tree of
//! interleavings of their atomic operations is enumerated (or sampled when too
//! large). A case is a configuration; the schedules are explored inside it.

use crate::sched::{enumerate, run_scheduled};
use crate::words::*;
use common_traits::{AsBytes, AtomicUnsignedInt};
use engine::*;
use epserde::prelude::*;
use std::sync::atomic::Ordering;
use std::sync::{Arc, Mutex};
use sux::bits::{AtomicBitFieldVec, AtomicBitVec, BitFieldVec, BitVec};
use sux::dict::elias_fano::{EliasFanoBuilder, EliasFanoConcurrentBuilder};
use sux::traits::bit_field_slice::{AtomicBitFieldSlice, BitFieldSlice};

pub struct C13;

const EXHAUSTIVE_LIMIT: usize = 50_000;
const EXHAUSTIVE_LIMIT_QUICK: usize = 4_000;

/// Every ordering is legal for the read-modify-write operations of AtomicBitVec.
fn ord_rmw(k: u8, salt: usize) -> Ordering {
    [Ordering::Relaxed, Ordering::SeqCst, Ordering::Release, Ordering::AcqRel, Ordering::Acquire][(k as usize + salt) % 5]
}

fn ord(k: u8) -> Ordering {
    if k % 2 == 0 {
        Ordering::Relaxed
    } else {
        Ordering::SeqCst
    }
}

/// Explores the schedules of a configuration: exhaustively when the tree has
/// at most EXHAUSTIVE_LIMIT leaves, otherwise `samples` random schedules.
/// `run(choose)` must execute the configuration once and judge the outcome.
fn explore(cx: &mut Ctx, samples: usize, seed: u64, mut run: impl FnMut(&mut dyn FnMut(usize, usize) -> usize) -> Result<Vec<(usize, usize)>, String>) -> R {
    let limit = cx.tier.pick(EXHAUSTIVE_LIMIT_QUICK, EXHAUSTIVE_LIMIT);
    let r = enumerate(limit, |prefix| run(&mut |step, _n| prefix.get(step).copied().unwrap_or(0)));
    match r {
        Err(m) => Err(Fail::mismatch("interleaving", m)),
        Ok(Some(count)) => {
            cx.ops(count as u64);
            cx.label("exhaustive");
            Ok(())
        }
        Ok(None) => {
            // too many leaves: random schedules
            cx.label("sampled");
            let mut x = seed | 1;
            for _ in 0..samples {
                let r = run(&mut |_step, n| {
                    x ^= x << 13;
                    x ^= x >> 7;
                    x ^= x << 17;
                    (x >> 33) as usize % n
                });
                if let Err(m) = r {
                    return Err(Fail::mismatch("interleaving", m));
                }
            }
            cx.ops(samples as u64);
            Ok(())
        }
    }
}

// ---- (a) AtomicBitFieldVec ---------------------------------------------------------

fn bfv_case<W: TWA>(cx: &mut Ctx, u: &mut Unstructured) -> R
where
    W::AtomicType: AtomicUnsignedInt + AsBytes + Send + Sync,
{
    let b = W::WBITS;
    let width = match u.int_in_range(0u8..=5).unwrap_or(2) {
        0 => b,
        1 => 1,
        2 => b - 1,
        3 => b / 2 + 1,
        _ => u.int_in_range(1usize..=b - 1).unwrap_or(3),
    };
    let writers = u.int_in_range(2usize..=3).unwrap_or(2);
    let per = u.int_in_range(1usize..=2).unwrap_or(1);
    let o = u.int_in_range(0u8..=1).unwrap_or(0);
    let salt: u64 = u.arbitrary().unwrap_or(5);
    // elements around a word boundary, so that fields share words and some straddle
    let per_word = (b / width).max(1);
    let len = per_word * 3 + 5;
    let base = per_word.saturating_sub(2);
    let total = writers * per;
    // distinct indices: consecutive (same word / adjacent / straddling) or spread
    let spread = u.int_in_range(0u8..=2).unwrap_or(0);
    let idx: Vec<usize> = (0..total).map(|k| (base + if spread == 2 { k * 2 } else { k }).min(len - 1 - (total - 1 - k))).collect();
    let straddles = idx.iter().filter(|i| (**i * width) % b + width > b).count();
    cx.hash(&("bfv", W::NAME, width, writers, per, o, salt, &idx));
    cx.describe(|| format!("AtomicBitFieldVec<{}> width {width} len {len}: {writers} writers x {per} writes to distinct indices {idx:?} ({straddles} straddling), ordering {:?}", W::NAME, ord(o)));
    cx.label("AtomicBitFieldVec");
    cx.label(W::NAME);
    cx.label_if(straddles > 0, "straddle");
    cx.label_if(writers == 3, "three_writers");
    let words: std::collections::HashSet<usize> = idx.iter().flat_map(|i| [(*i * width) / b, (*i * width + width - 1) / b]).collect();
    cx.label_if(words.len() < idx.len() * 2, "same_word");
    cx.nontrivial();
    let initial: Vec<u128> = (0..len).map(|i| field_hash(i, salt, width)).collect();
    let values: Vec<u128> = (0..total).map(|k| field_hash(k + 1000, salt ^ 0xABCD, width)).collect();
    let mut want = initial.clone();
    for (k, i) in idx.iter().enumerate() {
        want[*i] = values[k];
    }
    let samples = cx.tier.pick(1_000, 20_000);
    explore(cx, samples, salt, |choose| {
        let mut v = BitFieldVec::<W>::new(width, len);
        for (i, x) in initial.iter().enumerate() {
            sux::traits::BitFieldSliceMut::set(&mut v, i, W::from128(*x));
        }
        let a: Arc<AtomicBitFieldVec<W>> = Arc::new(v.into());
        let mut jobs: Vec<Box<dyn FnOnce() + Send>> = vec![];
        for t in 0..writers {
            let a = a.clone();
            let mine: Vec<(usize, u128)> = (0..per).map(|j| (idx[t * per + j], values[t * per + j])).collect();
            jobs.push(Box::new(move || {
                for (i, val) in mine {
                    a.set_atomic(i, W::from128(val), ord(o));
                }
            }));
        }
        let tr = run_scheduled(jobs, |s, n| choose(s, n));
        if tr.panicked {
            return Err(format!("interleaving: a writer panicked under schedule {:?}", tr.order));
        }
        let a = Arc::try_unwrap(a).map_err(|_| "writer still holds the vector".to_string())?;
        for i in 0..len {
            let g = a.get_atomic(i, Ordering::SeqCst).to128();
            if g != want[i] {
                return Err(format!("interleaving: AtomicBitFieldVec<{}> width {width}: after {writers} writers (indices {idx:?}) element {i} is {g:#x}, expected {:#x} ({}); schedule (thread run at each step) {:?}", W::NAME, want[i], if idx.contains(&i) { "its writer's value" } else { "unchanged" }, tr.order));
            }
        }
        let plain: BitFieldVec<W> = a.into();
        for i in 0..len {
            if plain.get(i).to128() != want[i] {
                return Err(format!("interleaving: after conversion to the non-atomic form element {i} differs; schedule {:?}", tr.order));
            }
        }
        Ok(tr.decisions)
    })
}

// ---- (b) AtomicBitVec ----------------------------------------------------------------

#[derive(Clone, Copy, Debug, Hash)]
enum BOp {
    Set(usize, bool),
    Swap(usize, bool),
}

fn bitvec_case(cx: &mut Ctx, u: &mut Unstructured) -> R {
    let writers = u.int_in_range(2usize..=3).unwrap_or(2);
    let per = u.int_in_range(1usize..=2).unwrap_or(1);
    let o = u.int_in_range(0u8..=1).unwrap_or(0);
    let len = 80;
    let shared_bit = u.int_in_range(0u8..=2).unwrap_or(0) == 0;
    let init: u64 = u.arbitrary().unwrap_or(0);
    let mut progs: Vec<Vec<BOp>> = vec![];
    for t in 0..writers {
        let mut p = vec![];
        for j in 0..per {
            let bit = if shared_bit { 5 } else { 60 + (t * per + j) * 2 }; // same bit, or distinct bits across a word boundary
            let val: bool = u.arbitrary().unwrap_or(true);
            p.push(if shared_bit || u.arbitrary().unwrap_or(false) { BOp::Swap(bit, val) } else { BOp::Set(bit, val) });
        }
        progs.push(p);
    }
    cx.hash(&("bitvec", writers, per, o, shared_bit, init, &progs));
    cx.describe(|| format!("AtomicBitVec len {len}: programs {progs:?} (shared bit: {shared_bit}), initial word {init:#x}"));
    cx.label("AtomicBitVec");
    cx.label_if(shared_bit, "swap_same_bit");
    cx.nontrivial();
    let initial: Vec<bool> = (0..len).map(|i| (init >> (i % 64)) & 1 == 1).collect();
    let samples = cx.tier.pick(1_000, 20_000);
    let progs2 = progs.clone();
    explore(cx, samples, init, move |choose| {
        let bv: BitVec = initial.iter().copied().collect();
        let a: Arc<AtomicBitVec> = Arc::new(bv.into());
        let rets: Arc<Mutex<Vec<Vec<Option<bool>>>>> = Arc::new(Mutex::new(vec![vec![]; writers]));
        let mut jobs: Vec<Box<dyn FnOnce() + Send>> = vec![];
        for t in 0..writers {
            let a = a.clone();
            let rets = rets.clone();
            let prog = progs2[t].clone();
            jobs.push(Box::new(move || {
                for op in prog {
                    let r = match op {
                        BOp::Set(i, v) => {
                            a.set(i, v, ord_rmw(o, i));
                            None
                        }
                        BOp::Swap(i, v) => Some(a.swap(i, v, ord_rmw(o, i + 1))),
                    };
                    rets.lock().unwrap()[t].push(r);
                }
            }));
        }
        let tr = run_scheduled(jobs, |s, n| choose(s, n));
        if tr.panicked {
            return Err(format!("interleaving: a writer panicked under schedule {:?}", tr.order));
        }
        let fin: Vec<bool> = (0..len).map(|i| a.get(i, Ordering::SeqCst)).collect();
        let rets = rets.lock().unwrap().clone();
        // some sequential order of the calls (respecting each thread's program order) must explain returns and final state
        let mut pos = vec![0usize; writers];
        fn explain(progs: &[Vec<BOp>], rets: &[Vec<Option<bool>>], pos: &mut Vec<usize>, state: &mut Vec<bool>, fin: &[bool]) -> bool {
            if (0..progs.len()).all(|t| pos[t] == progs[t].len()) {
                return state[..] == fin[..];
            }
            for t in 0..progs.len() {
                if pos[t] < progs[t].len() {
                    let k = pos[t];
                    let (i, v, want) = match progs[t][k] {
                        BOp::Set(i, v) => (i, v, None),
                        BOp::Swap(i, v) => (i, v, rets[t][k]),
                    };
                    let old = state[i];
                    if want.is_none() || want == Some(old) {
                        state[i] = v;
                        pos[t] += 1;
                        if explain(progs, rets, pos, state, fin) {
                            return true;
                        }
                        pos[t] -= 1;
                        state[i] = old;
                    }
                }
            }
            false
        }
        let mut st = initial.clone();
        if !explain(&progs2, &rets, &mut pos, &mut st, &fin) {
            return Err(format!("interleaving: AtomicBitVec: no sequential order of the calls {progs2:?} explains the returned values {rets:?} and the final bits; schedule {:?}", tr.order));
        }
        Ok(tr.decisions)
    })
}

// ---- (c) EliasFanoConcurrentBuilder ----------------------------------------------------

fn ef_case(cx: &mut Ctx, u: &mut Unstructured) -> R {
    let n = u.int_in_range(2usize..=6).unwrap_or(3);
    let threads = u.int_in_range(2usize..=3).unwrap_or(2);
    let mut values: Vec<usize> = vec![];
    let mut cur = u.int_in_range(0usize..=3).unwrap_or(0);
    for _ in 0..n {
        cur += [0usize, 1, 3, 64, 200, 1000][u.int_in_range(0usize..=5).unwrap_or(1)];
        values.push(cur);
    }
    let uu = cur + u.int_in_range(0usize..=70).unwrap_or(0);
    let assign: Vec<usize> = (0..n).map(|_| u.int_in_range(0usize..=threads - 1).unwrap_or(0)).collect();
    cx.hash(&("ef", &values, uu, threads, &assign));
    cx.describe(|| format!("EliasFanoConcurrentBuilder n={n} u={uu} values={values:?} index->thread {assign:?}"));
    cx.label("EliasFanoConcurrentBuilder");
    cx.nontrivial();
    // sequential reference
    let mut sb = EliasFanoBuilder::new(n, uu);
    for v in &values {
        sb.push(*v);
    }
    let seq = sb.build();
    let mut want_bytes = <AlignedCursor>::new();
    seq.serialize(&mut want_bytes).map_err(|e| Fail::mismatch("serialize", e.to_string()))?;
    let want_bytes = want_bytes.as_bytes().to_vec();
    let samples = cx.tier.pick(1_000, 20_000);
    let vals = values.clone();
    explore(cx, samples, uu as u64 ^ 0x9E37, move |choose| {
        let b = Arc::new(EliasFanoConcurrentBuilder::new(n, uu));
        let mut jobs: Vec<Box<dyn FnOnce() + Send>> = vec![];
        for t in 0..threads {
            let b = b.clone();
            let mine: Vec<(usize, usize)> = (0..n).filter(|i| assign[*i] == t).map(|i| (i, vals[i])).collect();
            jobs.push(Box::new(move || {
                for (i, v) in mine {
                    unsafe { b.set(i, v) };
                }
            }));
        }
        let tr = run_scheduled(jobs, |s, k| choose(s, k));
        if tr.panicked {
            return Err(format!("interleaving: a builder thread panicked under schedule {:?}", tr.order));
        }
        let b = Arc::try_unwrap(b).map_err(|_| "a thread still holds the builder".to_string())?;
        let ef = b.build();
        let got: Vec<usize> = ef.iter().collect();
        if got != vals {
            return Err(format!("interleaving: concurrent builder yields {got:?}, expected {vals:?}; schedule {:?}", tr.order));
        }
        let mut cur = <AlignedCursor>::new();
        ef.serialize(&mut cur).map_err(|e| e.to_string())?;
        if cur.as_bytes() != &want_bytes[..] {
            return Err(format!("interleaving: the structure built concurrently does not serialize to the same bytes as the one built sequentially; schedule {:?}", tr.order));
        }
        Ok(tr.decisions)
    })
}

// ---- (d) long histories under starvation schedules ------------------------------------------

/// One victim writes a single element once while one or two attackers write
/// other elements of the same word dozens of times, reading each back; the
/// schedules are adversarial families (the victim gets one step every k+1
/// steps, so its compare-exchange keeps failing) plus attacker-biased random
/// ones. Invariant over the whole history: an element always reads as the
/// last value stored by its only writer.
fn starve_case<W: TWA>(cx: &mut Ctx, u: &mut Unstructured) -> R
where
    W::AtomicType: AtomicUnsignedInt + AsBytes + Send + Sync,
{
    let b = W::WBITS;
    let straddle: bool = u.int_in_range(0u8..=2).unwrap_or(0) != 0 && b > 2;
    // a width that does not divide the word when a straddling victim is wanted
    let width = if straddle {
        let mut w = u.int_in_range(2usize..=b - 1).unwrap_or(3);
        while b % w == 0 {
            w += 1;
        }
        w.min(b - 1)
    } else {
        [1usize, 2, b / 2, b / 4 + 1, 3][u.int_in_range(0usize..=4).unwrap_or(0)].clamp(1, b / 2)
    };
    let per_word = b / width;
    // victim: the first straddling element, or the last element inside word 0
    let victim = if straddle { per_word } else { per_word - 1 };
    let attackers = u.int_in_range(1usize..=2).unwrap_or(1).min(per_word.saturating_sub(if straddle { 0 } else { 1 })).max(1);
    if per_word < 1 + usize::from(!straddle) {
        return Ok(());
    }
    let writes = cx.tier.pick(24usize, 48) + u.int_in_range(0usize..=16).unwrap_or(0);
    let o = u.int_in_range(0u8..=1).unwrap_or(0);
    let salt: u64 = u.arbitrary().unwrap_or(9);
    let len = per_word * 2 + 3;
    cx.hash(&("starve", W::NAME, width, straddle, attackers, writes, o, salt));
    cx.describe(|| format!("AtomicBitFieldVec<{}> width {width}: victim writes element {victim} ({}) once; {attackers} attacker(s) write elements 0..{attackers} of the same word {writes} times each and read them back; starvation schedules", W::NAME, if straddle { "straddling words 0 and 1" } else { "inside word 0" }));
    cx.label("starvation");
    cx.label_if(straddle, "straddle");
    cx.nontrivial();
    let mask = mask128(width);
    let initial: Vec<u128> = (0..len).map(|i| field_hash(i, salt, width)).collect();
    let vval = !initial[victim] & mask;
    // schedule families: (k, offset) deterministic starvation, then biased random
    let mut families: Vec<(usize, usize, u64)> = vec![];
    for k in 1..=6 {
        for off in 0..=k.min(2) {
            families.push((k, off, 0));
        }
    }
    for r in 0..cx.tier.pick(10u64, 60) {
        families.push((0, 0, salt.rotate_left(r as u32) | 1));
    }
    let n_fam = families.len();
    for (k, off, rseed) in families {
        let mut v = BitFieldVec::<W>::new(width, len);
        for (i, x) in initial.iter().enumerate() {
            sux::traits::BitFieldSliceMut::set(&mut v, i, W::from128(*x));
        }
        let a: Arc<AtomicBitFieldVec<W>> = Arc::new(v.into());
        let bad = Arc::new(Mutex::new(None::<String>));
        let mut jobs: Vec<Box<dyn FnOnce() + Send>> = vec![];
        {
            let a = a.clone();
            jobs.push(Box::new(move || a.set_atomic(victim, W::from128(vval), ord(o))));
        }
        let mut last = vec![0u128; attackers];
        for t in 0..attackers {
            let (a, bad) = (a.clone(), bad.clone());
            let vals: Vec<u128> = (0..writes).map(|r| (field_hash(r * 7 + t, salt ^ 0x55, width) ^ if r % 2 == 0 { mask } else { 0 }) & mask).collect();
            last[t] = *vals.last().unwrap();
            jobs.push(Box::new(move || {
                for (r, val) in vals.into_iter().enumerate() {
                    a.set_atomic(t, W::from128(val), ord(o));
                    let g = a.get_atomic(t, ord(o)).to128();
                    if g != val {
                        let mut b = bad.lock().unwrap();
                        if b.is_none() {
                            *b = Some(format!("attacker {t}, write {r}: element {t} reads {g:#x} right after its only writer stored {val:#x}"));
                        }
                    }
                }
            }));
        }
        let mut x = rseed;
        let tr = run_scheduled(jobs, |step, n| {
            if n == 1 {
                return 0;
            }
            if rseed == 0 {
                // the victim (runnable index 0 while it lives) gets one step out of k+1
                if (step + off) % (k + 1) == 0 {
                    0
                } else {
                    1 + (step / (k + 1)) % (n - 1)
                }
            } else {
                x ^= x << 13;
                x ^= x >> 7;
                x ^= x << 17;
                if (x >> 40) % 6 == 0 {
                    0
                } else {
                    1 + (x >> 20) as usize % (n - 1)
                }
            }
        });
        let sched = || if rseed == 0 { format!("victim runs at steps = {} mod {}", (k + 1 - off) % (k + 1), k + 1) } else { format!("attacker-biased random schedule {rseed:#x}") };
        if tr.panicked {
            return Err(Fail::mismatch("interleaving.starvation", format!("interleaving: a writer panicked ({})", sched())));
        }
        if let Some(m) = bad.lock().unwrap().take() {
            return Err(Fail::mismatch("interleaving.starvation", format!("interleaving: AtomicBitFieldVec<{}> width {width}, victim element {victim}: {m}; {} ({} steps)", W::NAME, sched(), tr.order.len())));
        }
        let a = Arc::try_unwrap(a).map_err(|_| Fail::mismatch("interleaving.starvation", "writer still holds the vector"))?;
        for i in 0..len {
            let want = if i == victim { vval } else if i < attackers { last[i] } else { initial[i] };
            let g = a.get_atomic(i, Ordering::SeqCst).to128();
            if g != want {
                return Err(Fail::mismatch("interleaving.starvation", format!("interleaving: AtomicBitFieldVec<{}> width {width}: after the history element {i} is {g:#x}, expected {want:#x}; {} ({} steps)", W::NAME, sched(), tr.order.len())));
            }
        }
    }
    cx.ops(n_fam as u64);
    Ok(())
}

// ---- auxiliary, non-deciding: real-thread stress ------------------------------------------

fn stress_case(cx: &mut Ctx, u: &mut Unstructured) -> R {
    let width = u.int_in_range(1usize..=63).unwrap_or(7);
    let rounds = cx.tier.pick(2_000, 100_000);
    let threads = 4usize;
    cx.hash(&("stress", width, rounds));
    cx.describe(|| format!("real-thread stress: 4 threads x {rounds} rounds writing distinct fields of an AtomicBitFieldVec<usize> of width {width}"));
    cx.label("stress(real threads, auxiliary)");
    cx.nontrivial();
    let len = 64;
    let a: Arc<AtomicBitFieldVec<usize>> = Arc::new(AtomicBitFieldVec::new(width, len));
    let barrier = Arc::new(std::sync::Barrier::new(threads));
    let mask = mask128(width) as usize;
    let bad = Arc::new(Mutex::new(None::<String>));
    let hs: Vec<_> = (0..threads)
        .map(|t| {
            let (a, barrier, bad) = (a.clone(), barrier.clone(), bad.clone());
            std::thread::spawn(move || {
                for r in 0..rounds {
                    barrier.wait();
                    // thread t owns indices congruent to t modulo 4
                    for i in (t..len).step_by(threads) {
                        a.set_atomic(i, (r * 31 + i) & mask, Ordering::Relaxed);
                    }
                    barrier.wait();
                    for i in (t..len).step_by(threads) {
                        let g = a.get_atomic(i, Ordering::Relaxed);
                        if g != (r * 31 + i) & mask {
                            *bad.lock().unwrap() = Some(format!("round {r}: element {i} is {g:#x}, expected {:#x}", (r * 31 + i) & mask));
                        }
                    }
                }
            })
        })
        .collect();
    for h in hs {
        let _ = h.join();
    }
    cx.ops((rounds * threads) as u64);
    if let Some(m) = bad.lock().unwrap().take() {
        return Err(Fail::mismatch("stress", format!("stress: width {width}: {m}")));
    }
    Ok(())
}

impl Property for C13 {
    fn id(&self) -> &'static str {
        "C13"
    }
    fn plan(&self, tier: Tier) -> Vec<Segment> {
        vec![
            Segment::random("AtomicBitFieldVec", tier.pick(130, 1_200), &[0], 16, 40),
            Segment::random("AtomicBitVec", tier.pick(60, 600), &[1], 16, 40),
            Segment::random("EliasFanoConcurrentBuilder", tier.pick(40, 300), &[2], 16, 40),
            Segment::random("stress", tier.pick(8, 64), &[3], 8, 16),
            // long histories under adversarial (starvation) schedules: one writer kept losing its compare-exchange
            Segment::random("starvation-schedules", tier.pick(48, 600), &[4], 16, 40),
        ]
    }
    fn watchdog_s(&self) -> u64 {
        600
    }
    fn rule(&self) -> &'static str {
        "schedules are the generated input: with the sched_point() hook (cfg vigna_sux_rs_verif) 2-3 writer threads are serialised by a cooperative scheduler; a case is a configuration decoded from bytes and ALL interleavings of its atomic operations are enumerated by stateless DFS when the tree has <= 4000 (quick) / 50000 (thorough) leaves (label exhaustive), otherwise random schedules are drawn (label sampled); 'operations_checked' counts schedules executed. Configurations: AtomicBitFieldVec<u8,u16,u32,u64> with widths 1..BITS (BITS-1, BITS/2+1, ...), 2-3 writers x 1-2 set_atomic calls to distinct indices placed around a word boundary (same word, adjacent words, straddling fields), random initial contents, Relaxed/SeqCst; AtomicBitVec set/swap on distinct bits across a word boundary or swaps on one shared bit; EliasFanoConcurrentBuilder with 2-6 values partitioned over 2-3 threads. Oracle after join: every written element holds its writer's value and every other element its initial value (via get_atomic and after conversion to the non-atomic form); swap return values and final bits must be explained by some sequential order respecting program order (brute force); the concurrent builder iterates to the input and serialises byte-identically to the sequential builder. Long histories: one victim set_atomic (straddling or not) against 1-2 attackers writing other elements of the same word 24-64 times and reading them back, under deterministic starvation schedules (the victim gets one step in k+1, k=1..6, all offsets) and attacker-biased random ones; invariant: an element always reads as its only writer's last value. Auxiliary, non-deciding: real-thread stress with barriers. Non-trivial: every configuration has >= 2 writers on a common word region; distinct = distinct hash of the decoded configuration."
    }
    fn assumptions(&self) -> Vec<&'static str> {
        vec!["interleavings are explored at the granularity of the hooked atomic operations under sequential consistency; behaviours that exist only under weaker hardware orderings are out of reach", "a scheduling point sits before every atomic operation of AtomicBitVec::{get,set,swap} and AtomicBitFieldVec::{get_atomic,set_atomic}; a change that adds an un-hooked atomic access is only seen at the granularity of the remaining points and by the auxiliary stress"]
    }
    fn run(&self, data: &[u8], cx: &mut Ctx) -> R {
        let (mode, rest) = data.split_first().unwrap_or((&0, &[]));
        let mut u = Unstructured::new(rest);
        match *mode {
            0 => match u.int_in_range(0u8..=3).unwrap_or(0) {
                0 => bfv_case::<u8>(cx, &mut u),
                1 => bfv_case::<u16>(cx, &mut u),
                2 => bfv_case::<u32>(cx, &mut u),
                _ => bfv_case::<u64>(cx, &mut u),
            },
            1 => bitvec_case(cx, &mut u),
            2 => ef_case(cx, &mut u),
            4 => match u.int_in_range(0u8..=3).unwrap_or(0) {
                0 => starve_case::<u8>(cx, &mut u),
                1 => starve_case::<u16>(cx, &mut u),
                2 => starve_case::<u32>(cx, &mut u),
                _ => starve_case::<u64>(cx, &mut u),
            },
            _ => stress_case(cx, &mut u),
        }
    }
}
