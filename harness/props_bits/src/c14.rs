//! C14 — storage outside the logical contents is neither trusted nor modified.

use crate::words::*;
use common_traits::{AsBytes, AtomicUnsignedInt};
use engine::*;
use std::sync::atomic::{AtomicUsize, Ordering};
use sux::bits::{AtomicBitFieldVec, AtomicBitVec, BitFieldVec, BitVec};
use sux::traits::bit_field_slice::{AtomicBitFieldSlice, BitFieldSlice, BitFieldSliceCore, BitFieldSliceMut};
use sux::traits::{BitCount, IntoReverseUncheckedIterator, IntoUncheckedIterator, RankHinted, SelectHinted, SelectZeroHinted, UncheckedIterator};

pub struct C14;

fn xs(x: &mut u64) -> u64 {
    *x ^= *x << 13;
    *x ^= *x >> 7;
    *x ^= *x << 17;
    *x
}

/// garbage word for position `i` by class
fn garbage(kind: u8, x: &mut u64) -> u128 {
    match kind % 3 {
        0 => u128::MAX,
        1 => ((xs(x) as u128) << 64) | xs(x) as u128,
        _ => 1, // a single bit just past the end (shifted by the caller)
    }
}

// ---------------------------------------------------------------------------
// BitVec

fn words_of(model: &[bool], dirt: &[usize]) -> Vec<usize> {
    // logical bits from the model, everything else from dirt
    let mut w = dirt.to_vec();
    for (i, word) in w.iter_mut().enumerate() {
        let lo = i * 64;
        for b in 0..64 {
            let p = lo + b;
            if p < model.len() {
                if model[p] {
                    *word |= 1 << b;
                } else {
                    *word &= !(1 << b);
                }
            }
        }
    }
    w
}

fn bitvec_case(cx: &mut Ctx, u: &mut Unstructured) -> R {
    let len = len_class(u, 700);
    let extra = u.int_in_range(0usize..=3).unwrap_or(1);
    let gkind = u.int_in_range(0u8..=2).unwrap_or(0);
    let seed: u64 = u.arbitrary().unwrap_or(99);
    let nops = u.int_in_range(1usize..=14).unwrap_or(4);
    let ops: Vec<(u8, u16)> = (0..nops).map(|_| (u.int_in_range(0u8..=27).unwrap_or(0), u.arbitrary().unwrap_or(0))).collect();
    cx.hash(&("bitvec", len, extra, gkind, seed, &ops));
    cx.describe(|| format!("BitVec over dirty storage: len={len} extra_words={extra} garbage={gkind} seed={seed} ops={ops:?}"));
    cx.label("BitVec");
    let nw = len.div_ceil(64) + extra;
    let mut x = seed | 1;
    let mut model: Vec<bool> = (0..len).map(|_| xs(&mut x) & 1 == 1).collect();
    // dirt: arbitrary bits at or beyond len
    let mut dirt = vec![0usize; nw];
    for (i, d) in dirt.iter_mut().enumerate() {
        let lo = i * 64;
        let mask: usize = if len >= lo + 64 {
            0
        } else if len <= lo {
            !0
        } else {
            !0usize << (len - lo)
        };
        let g = garbage(gkind, &mut x) as usize;
        *d = if gkind % 3 == 2 { mask & mask.wrapping_neg() } else { g & mask };
    }
    let dirty_nonzero = dirt.iter().any(|d| *d != 0);
    cx.nontrivial_if(dirty_nonzero && (len % 64 != 0 || extra > 0));
    cx.label_if(len % 64 != 0 && dirty_nonzero, "stale_last_word");
    cx.label_if(extra > 0, "extra_words");
    let mut dirty = unsafe { BitVec::from_raw_parts(words_of(&model, &dirt), len) };
    for (k, (op, arg)) in ops.iter().enumerate() {
        let len = model.len();
        let clean: BitVec = model.iter().copied().collect();
        let ones: Vec<usize> = (0..len).filter(|i| model[*i]).collect();
        match op {
            // ---- read side: same answers as over clean storage
            0 => {
                let c = cx.must("count_ones", || dirty.count_ones())?;
                cx.check_eq(c, ones.len(), "read.count_ones", || format!("count_ones over dirty storage (len {len})"))?;
                let c = cx.must("count_zeros", || dirty.count_zeros())?;
                cx.check_eq(c, len - ones.len(), "read.count_zeros", || "count_zeros over dirty storage".into())?;
                let c = cx.must("par_count_ones", || dirty.par_count_ones())?;
                cx.check_eq(c, ones.len(), "read.par_count_ones", || format!("par_count_ones over dirty storage (len {len})"))?;
            }
            1 => {
                let got: Vec<usize> = cx.must("iter_ones", || dirty.iter_ones().collect())?;
                cx.check(got == ones, "read.iter_ones", || format!("iter_ones over dirty storage (len {len}, {extra} extra words): got {} positions, expected {}", got.len(), ones.len()))?;
                iter_protocol(cx, "read.iter_ones", dirty.iter_ones(), &ones, *arg as u64 ^ (len as u64) << 16)?;
            }
            2 => {
                let want: Vec<usize> = (0..len).filter(|i| !model[*i]).collect();
                let got: Vec<usize> = cx.must("iter_zeros", || dirty.iter_zeros().collect())?;
                cx.check(got == want, "read.iter_zeros", || format!("iter_zeros over dirty storage (len {len}, {extra} extra words): got {} positions, expected {}", got.len(), want.len()))?;
                iter_protocol(cx, "read.iter_zeros", dirty.iter_zeros(), &want, *arg as u64 ^ (len as u64) << 16)?;
            }
            3 => {
                let got: Vec<bool> = cx.must("iter", || dirty.iter().collect())?;
                cx.check(got == model, "read.iter", || "iter over dirty storage".into())?;
                iter_protocol(cx, "read.iter", dirty.iter(), &model, *arg as u64 ^ (len as u64) << 16)?;
            }
            4 => {
                let e = cx.must("eq", || dirty == clean)?;
                cx.check(e, "read.eq", || format!("dirty == clean is false (len {len})"))?;
                let e = cx.must("eq", || clean == dirty)?;
                cx.check(e, "read.eq", || format!("clean == dirty is false (len {len})"))?;
                // two dirty vectors with different garbage
                let mut d2 = dirt.clone();
                for d in d2.iter_mut() {
                    *d = !*d;
                }
                let other = unsafe { BitVec::from_raw_parts(words_of(&model, &words_mask(&d2, len)), len) };
                let e = cx.must("eq", || dirty == other)?;
                cx.check(e, "read.eq", || format!("two vectors with equal contents and different garbage compare different (len {len})"))?;
            }
            5 => {
                if len > 0 {
                    let i = *arg as usize * len >> 16;
                    let g = cx.must("get", || dirty.get(i))?;
                    cx.check_eq(g, model[i], "read.get", || format!("get({i})"))?;
                }
            }
            6 => {
                // hinted rank/select within range
                if len > 0 {
                    let p = *arg as usize * len >> 16;
                    let r = cx.must("rank_hinted", || unsafe { RankHinted::<64>::rank_hinted(&dirty, p, 0, 0) })?;
                    cx.check_eq(r, ones.iter().filter(|o| **o < p).count(), "read.rank_hinted", || format!("rank_hinted({p}, 0, 0)"))?;
                }
                if !ones.is_empty() {
                    let r = *arg as usize * ones.len() >> 16;
                    let s = cx.must("select_hinted", || unsafe { SelectHinted::select_hinted(&dirty, r, 0, 0) })?;
                    cx.check_eq(s, ones[r], "read.select_hinted", || format!("select_hinted({r}, 0, 0)"))?;
                }
                let zeros: Vec<usize> = (0..len).filter(|i| !model[*i]).collect();
                if !zeros.is_empty() {
                    let r = *arg as usize * zeros.len() >> 16;
                    let s = cx.must("select_zero_hinted", || unsafe { SelectZeroHinted::select_zero_hinted(&dirty, r, 0, 0) })?;
                    cx.check_eq(s, zeros[r], "read.select_zero_hinted", || format!("select_zero_hinted({r}, 0, 0)"))?;
                }
            }
            7 => {
                let o = cx.must("to_owned", || dirty.to_owned())?;
                let e = cx.must("eq", || o == clean)?;
                cx.check(e, "read.to_owned", || "to_owned() of a dirty vector differs from the clean one".into())?;
            }
            // ---- write side
            8 | 9 => {
                if len > 0 {
                    let i = *arg as usize * len >> 16;
                    let b = op % 2 == 0;
                    cx.must("set", || dirty.set(i, b))?;
                    model[i] = b;
                }
            }
            10 => {
                cx.must("fill", || dirty.fill(arg % 2 == 0))?;
                model.iter_mut().for_each(|m| *m = arg % 2 == 0);
            }
            11 => {
                cx.must("par_fill", || dirty.par_fill(arg % 2 == 0))?;
                model.iter_mut().for_each(|m| *m = arg % 2 == 0);
            }
            12 => {
                cx.must("flip", || dirty.flip())?;
                model.iter_mut().for_each(|m| *m = !*m);
            }
            13 => {
                cx.must("par_flip", || dirty.par_flip())?;
                model.iter_mut().for_each(|m| *m = !*m);
            }
            14 => {
                cx.must("reset", || dirty.reset())?;
                model.iter_mut().for_each(|m| *m = false);
            }
            15 => {
                cx.must("par_reset", || dirty.par_reset())?;
                model.iter_mut().for_each(|m| *m = false);
            }
            24..=27 => {
                cx.label("resize_on_dirty");
                let before: Vec<usize> = { let w: &[usize] = dirty.as_ref(); w.to_vec() };
                match op {
                    24 => {
                        cx.must("push", || dirty.push(arg % 2 == 0))?;
                        model.push(arg % 2 == 0);
                    }
                    25 => {
                        let g = cx.must("pop", || dirty.pop())?;
                        cx.check_eq(g, model.pop(), "read.pop", || "pop() over dirty storage".into())?;
                    }
                    _ => {
                        let n = (*arg as usize * (model.len() + 150)) >> 16;
                        cx.must("resize", || dirty.resize(n, arg % 2 == 0))?;
                        model.resize(n, arg % 2 == 0);
                    }
                }
                dirt = before;
                let need = { let w: &[usize] = dirty.as_ref(); w.len() };
                cx.check(need >= dirt.len(), "write.bitvec", || "the backend shrank".into())?;
                dirt.resize(need, 0);
            }
            _ => {
                // through the atomic twin, over the same storage
                let mut a: AtomicBitVec = std::mem::replace(&mut dirty, BitVec::new(0)).into();
                let o = [Ordering::Relaxed, Ordering::SeqCst][k % 2];
                match op % 8 {
                    0 | 1 => {
                        if len > 0 {
                            let i = *arg as usize * len >> 16;
                            cx.must("atomic.set", || a.set(i, op % 2 == 0, o))?;
                            model[i] = op % 2 == 0;
                        }
                    }
                    2 => {
                        if len > 0 {
                            let i = *arg as usize * len >> 16;
                            let old = cx.must("atomic.swap", || a.swap(i, true, o))?;
                            cx.check_eq(old, model[i], "atomic.swap", || "swap return value".into())?;
                            model[i] = true;
                        }
                    }
                    3 => {
                        cx.must("atomic.fill", || a.fill(arg % 2 == 0, o))?;
                        model.iter_mut().for_each(|m| *m = arg % 2 == 0);
                    }
                    4 => {
                        cx.must("atomic.flip", || a.flip(o))?;
                        model.iter_mut().for_each(|m| *m = !*m);
                    }
                    5 => {
                        cx.must("atomic.reset", || a.reset(o))?;
                        model.iter_mut().for_each(|m| *m = false);
                    }
                    6 => {
                        cx.must("atomic.par_fill", || a.par_fill(arg % 2 == 0, o))?;
                        model.iter_mut().for_each(|m| *m = arg % 2 == 0);
                    }
                    _ => {
                        let c = cx.must("atomic.count_ones", || a.count_ones())?;
                        cx.check_eq(c, ones.len(), "read.atomic.count_ones", || "AtomicBitVec::count_ones over dirty storage".into())?;
                        let got: Vec<bool> = cx.must("atomic.iter", || a.iter().collect())?;
                        cx.check(got == model, "read.atomic.iter", || "AtomicBitVec::iter over dirty storage".into())?;
                    }
                }
                let _ = AtomicUsize::new(0);
                dirty = a.into();
            }
        }
        // the whole backend after every step: logical bits = model, the rest untouched
        let want = words_of(&model, &dirt);
        let got: &[usize] = dirty.as_ref();
        if got != &want[..] {
            let i = (0..want.len()).find(|i| got[*i] != want[*i]).unwrap();
            return Err(Fail::mismatch("write.bitvec", format!("write.bitvec: after op {op} (arg {arg}) backend word {i} of {} is {:#018x}, expected {:#018x} (len {len}: bits beyond the length must not change, logical bits must follow the model)", want.len(), got[i], want[i])));
        }
    }
    Ok(())
}

fn words_mask(d: &[usize], len: usize) -> Vec<usize> {
    d.iter()
        .enumerate()
        .map(|(i, w)| {
            let lo = i * 64;
            let mask: usize = if len >= lo + 64 {
                0
            } else if len <= lo {
                !0
            } else {
                !0usize << (len - lo)
            };
            *w & mask
        })
        .collect()
}

// ---------------------------------------------------------------------------
// BitFieldVec

fn bfv_words<W: TW>(model: &[u128], width: usize, dirt: &[W]) -> Vec<W> {
    let mut w: Vec<u128> = dirt.iter().map(|x| x.to128()).collect();
    let b = W::WBITS;
    for (i, v) in model.iter().enumerate() {
        for t in 0..width {
            let p = i * width + t;
            let bit = (v >> t) & 1;
            let (wi, bi) = (p / b, p % b);
            w[wi] = (w[wi] & !(1u128 << bi)) | (bit << bi);
        }
    }
    w.into_iter().map(W::from128).collect()
}

pub trait MaybeAtomic: TW {
    /// set_atomic / reset_atomic over the same storage (identity for u128)
    fn atomic_ops(cx: &mut Ctx, v: BitFieldVec<Self>, model: &mut [u128], width: usize, op: u8, arg: u16) -> R<BitFieldVec<Self>>;
}
fn atomic_ops_impl<W: TWA>(cx: &mut Ctx, v: BitFieldVec<W>, model: &mut [u128], width: usize, op: u8, arg: u16) -> R<BitFieldVec<W>>
where
    W::AtomicType: AtomicUnsignedInt + AsBytes,
{
    let mut a: AtomicBitFieldVec<W> = v.into();
    let len = model.len();
    match op % 3 {
        0 | 1 => {
            if len > 0 && width > 0 {
                let i = arg as usize * len >> 16;
                let val = field_hash(arg as usize, 5, width);
                cx.must("set_atomic", || a.set_atomic(i, W::from128(val), Ordering::Relaxed))?;
                model[i] = val;
                let g = cx.must("get_atomic", || a.get_atomic(i, Ordering::SeqCst))?;
                cx.check_eq(g.to128(), val, "read.get_atomic", || "get_atomic after set_atomic".into())?;
            }
        }
        _ => {
            if arg % 2 == 0 {
                cx.must("reset_atomic", || a.reset_atomic(Ordering::Relaxed))?;
            } else {
                cx.must("par_reset_atomic", || a.par_reset_atomic(Ordering::Relaxed))?;
            }
            model.iter_mut().for_each(|m| *m = 0);
        }
    }
    Ok(a.into())
}
macro_rules! impl_ma { ($($t:ty),*) => {$( impl MaybeAtomic for $t { fn atomic_ops(cx: &mut Ctx, v: BitFieldVec<Self>, model: &mut [u128], width: usize, op: u8, arg: u16) -> R<BitFieldVec<Self>> { atomic_ops_impl::<$t>(cx, v, model, width, op, arg) } } )*}; }
impl_ma!(u8, u16, u32, u64, usize);
impl MaybeAtomic for u128 {
    fn atomic_ops(_cx: &mut Ctx, v: BitFieldVec<Self>, _model: &mut [u128], _width: usize, _op: u8, _arg: u16) -> R<BitFieldVec<Self>> {
        Ok(v)
    }
}

fn bfv_case<W: MaybeAtomic>(cx: &mut Ctx, u: &mut Unstructured) -> R {
    let b = W::WBITS;
    let width = match u.int_in_range(0u8..=6).unwrap_or(3) {
        0 => b,
        1 => 1,
        2 => b - 1,
        3 => 1usize << u.int_in_range(0u32..=b.trailing_zeros()).unwrap_or(1),
        _ => u.int_in_range(1usize..=b).unwrap_or(5),
    };
    let len = len_class(u, 200);
    let extra = u.int_in_range(0usize..=3).unwrap_or(1);
    let gkind = u.int_in_range(0u8..=2).unwrap_or(0);
    let seed: u64 = u.arbitrary().unwrap_or(7);
    let nops = u.int_in_range(1usize..=12).unwrap_or(4);
    let ops: Vec<(u8, u16)> = (0..nops).map(|_| (u.int_in_range(0u8..=21).unwrap_or(0), u.arbitrary().unwrap_or(0))).collect();
    cx.hash(&("bfv", W::NAME, width, len, extra, gkind, seed, &ops));
    cx.describe(|| format!("BitFieldVec<{}> over dirty storage: width={width} len={len} extra_words={extra} garbage={gkind} seed={seed} ops={ops:?}", W::NAME));
    cx.label("BitFieldVec");
    cx.label(W::NAME);
    let bits = len * width;
    let nw = bits.div_ceil(b).max(1) + extra;
    let mut x = seed | 1;
    let mut model: Vec<u128> = (0..len).map(|i| field_hash(i, seed, width)).collect();
    let mut dirt: Vec<W> = vec![W::ZERO; nw];
    for (i, d) in dirt.iter_mut().enumerate() {
        let lo = i * b;
        let mask: u128 = if bits >= lo + b {
            0
        } else if bits <= lo {
            mask128(b)
        } else {
            mask128(b) & !(mask128(bits - lo))
        };
        let g = garbage(gkind, &mut x);
        *d = W::from128(if gkind % 3 == 2 { mask & mask.wrapping_neg() } else { g & mask });
    }
    let dirty_nonzero = dirt.iter().any(|d| *d != W::ZERO);
    cx.nontrivial_if(dirty_nonzero && (bits % b != 0 || extra > 0));
    cx.label_if(bits % b != 0 && dirty_nonzero, "stale_last_word");
    cx.label_if(extra > 0, "extra_words");
    let mut dirty = unsafe { BitFieldVec::<W>::from_raw_parts(bfv_words(&model, width, &dirt), width, len) };
    for (op, arg) in &ops {
        let len = model.len();
        let mut clean = BitFieldVec::<W>::new(width, 0);
        clean.extend(model.iter().map(|v| W::from128(*v)));
        match op {
            0 => {
                let got: Vec<u128> = cx.must("iter", || dirty.iter().map(|v| v.to128()).collect())?;
                cx.check(got == model, "read.iter", || format!("iter over dirty storage (width {width}, len {len})"))?;
                iter_protocol(cx, "read.iter", dirty.iter().map(|v| v.to128()), &model, *arg as u64 ^ (len as u64) << 16)?;
            }
            1 => {
                let k = *arg as usize * (len + 1) >> 16;
                let got: Vec<u128> = cx.must("unchecked_iter", || {
                    let mut it = (&dirty).into_unchecked_iter_from(k);
                    (k..len).map(|_| unsafe { it.next_unchecked() }.to128()).collect()
                })?;
                cx.check(got == model[k..], "read.unchecked_iter", || format!("forward unchecked iterator from {k} over dirty storage"))?;
                let got: Vec<u128> = cx.must("rev_unchecked_iter", || {
                    let mut it = (&dirty).into_rev_unchecked_iter_from(k);
                    (0..k).map(|_| unsafe { it.next_unchecked() }.to128()).collect()
                })?;
                let want: Vec<u128> = model[..k].iter().rev().copied().collect();
                cx.check(got == want, "read.rev_unchecked_iter", || format!("reverse unchecked iterator from {k} over dirty storage"))?;
            }
            2 => {
                let e = cx.must("eq", || dirty == clean)?;
                cx.check(e, "read.eq", || format!("dirty == clean is false (BitFieldVec<{}> width {width} len {len})", W::NAME))?;
                let e = cx.must("eq", || clean == dirty)?;
                cx.check(e, "read.eq", || "clean == dirty is false".into())?;
            }
            3 => {
                if len > 0 {
                    let i = *arg as usize * len >> 16;
                    let g = cx.must("get", || dirty.get(i))?;
                    cx.check_eq(g.to128(), model[i], "read.get", || format!("get({i})"))?;
                }
            }
            4..=6 => {
                if len > 0 {
                    let i = *arg as usize * len >> 16;
                    let val = field_hash(*arg as usize, 3, width);
                    cx.must("set", || dirty.set(i, W::from128(val)))?;
                    model[i] = val;
                }
            }
            7 => {
                cx.must("reset", || dirty.reset())?;
                model.iter_mut().for_each(|m| *m = 0);
            }
            8 => {
                cx.must("par_reset", || dirty.par_reset())?;
                model.iter_mut().for_each(|m| *m = 0);
            }
            9 | 10 => {
                // copy into it
                let sl = (*arg as usize % 97) + 1;
                let mut src = BitFieldVec::<W>::new(width, sl);
                for i in 0..sl {
                    src.set(i, W::from128(field_hash(i, *arg as u64, width)));
                }
                let from = *arg as usize % (sl + 1);
                let to = (*arg as usize / 7) % (len + 1);
                let n = (*arg as usize / 3) % (sl + 3);
                cx.must("copy", || src.copy(from, &mut dirty, to, n))?;
                let k = n.min(sl - from).min(len - to);
                for i in 0..k {
                    model[to + i] = field_hash(from + i, *arg as u64, width);
                }
            }
            11 | 12 => {
                let mask = mask128(width);
                cx.must("apply_in_place", || dirty.apply_in_place(|v| W::from128((v.to128() ^ 0x5A5A_5A5A_5A5A_5A5A_5A5A_5A5A_5A5A_5A5A) & mask)))?;
                model.iter_mut().for_each(|m| *m = (*m ^ 0x5A5A_5A5A_5A5A_5A5A_5A5A_5A5A_5A5A_5A5A) & mask);
            }
            13 | 14 => {
                // writes through chunk views
                let c = if width.is_power_of_two() { b / width * (1 + *arg as usize % 3) } else { len.max(1) };
                let r = cx.must("try_chunks_mut", || match dirty.try_chunks_mut(c) {
                    Ok(it) => {
                        for mut ch in it {
                            let l = BitFieldSliceCore::len(&ch);
                            if l > 0 {
                                let t = *arg as usize % l;
                                let v = ch.get(t);
                                ch.set(t, W::from128((v.to128() + 1) & mask128(width)));
                            }
                        }
                        true
                    }
                    Err(()) => false,
                })?;
                if r {
                    let mut j = 0;
                    while j < len {
                        let l = c.min(len - j);
                        let t = j + *arg as usize % l;
                        model[t] = (model[t] + 1) & mask128(width);
                        j += c;
                    }
                }
            }
            15..=17 => {
                dirty = W::atomic_ops(cx, dirty, &mut model, width, *op, *arg)?;
            }
            _ => {
                // length-changing operations of the growable form: the bits they do
                // not write (stale bits of removed elements, garbage further on)
                // stay as they are; appended words are zero
                cx.label("resize_on_dirty");
                let before: Vec<W> = dirty.as_slice().to_vec();
                match op {
                    18 => {
                        let val = field_hash(*arg as usize, 9, width);
                        cx.must("push", || dirty.push(W::from128(val)))?;
                        model.push(val);
                    }
                    19 => {
                        let g = cx.must("pop", || dirty.pop())?;
                        let w = model.pop();
                        cx.check_eq(g.map(|x| x.to128()), w, "read.pop", || "pop() over dirty storage".into())?;
                    }
                    _ => {
                        let n = (*arg as usize * (model.len() + 40)) >> 16;
                        let val = if arg % 3 == 0 { 0 } else { field_hash(*arg as usize, 13, width) };
                        cx.must("resize", || dirty.resize(n, W::from128(val)))?;
                        model.resize(n, val);
                    }
                }
                dirt = before;
                let need = dirty.as_slice().len();
                cx.check(need >= dirt.len(), "write.bfv", || "the backend shrank".into())?;
                dirt.resize(need, W::ZERO);
            }
        }
        let len = model.len();
        let _ = len;
        let want = bfv_words(&model, width, &dirt);
        let got = dirty.as_slice();
        if got != &want[..] {
            let i = (0..want.len()).find(|i| got[*i] != want[*i]).unwrap();
            return Err(Fail::mismatch("write.bfv", format!("write.bfv: BitFieldVec<{}> width {width} len {len}: after op {op} (arg {arg}) backend word {i} of {} is {:#x}, expected {:#x} (bits beyond len*width must not change, elements must follow the model)", W::NAME, want.len(), got[i].to128(), want[i].to128())));
        }
    }
    Ok(())
}

impl Property for C14 {
    fn id(&self) -> &'static str {
        "C14"
    }
    fn plan(&self, tier: Tier) -> Vec<Segment> {
        vec![
            Segment::random("BitVec", tier.pick(300_000, 6_400_000), &[0], 16, 80),
            Segment::random("BitFieldVec", tier.pick(450_000, 9_600_000), &[1], 16, 80),
            // the parallel bulk operations split their work only from 200000 words upward
            Segment::enumerated("parallel-bulk-ops-over-large-dirty-storage", tier.pick(16, 96), &[0xF1]),
        ]
    }
    fn rule(&self) -> &'static str {
        "case = (vector kind BitVec / BitFieldVec<u8..u128,usize>, contents, width, length, garbage class (all ones / random / a single bit just past the end) in every backend bit at or beyond len*width, 0..3 extra trailing words, op list) decoded from bytes; the vector is placed over the dirty image by from_raw_parts. Read side: get, count_ones/zeros, par_count_ones, iter, iter_ones, iter_zeros, ==, to_owned, rank_hinted/select_hinted/select_zero_hinted within range, forward and reverse unchecked iterators, atomic count/iter answer exactly as over clean storage (dirty == clean, clean == dirty, dirty == differently-dirty). Every iterator is also driven through a generated script of next/nth/size_hint steps and one consuming adaptor (count, last, collect, step_by, skip, fold) in lock-step with the model's iterator. Write side: after every mutator (set, fill, flip, reset, par_*, copy into it, apply_in_place, writes through try_chunks_mut views, set_atomic, swap, reset_atomic, atomic fill/flip) the whole backend (as_slice / AsRef) equals model bits inside the logical region and the original garbage everywhere else. Plus an enumerated segment running every parallel bulk operation over 12.8-64 Mbit dirty backends with 0..400001 spare words (above rayon's split threshold). Non-trivial: garbage non-zero and (len*width not a multiple of the word size or extra words present); distinct = distinct hash of the decoded case."
    }
    fn run(&self, data: &[u8], cx: &mut Ctx) -> R {
        let (mode, rest) = data.split_first().unwrap_or((&0, &[]));
        if *mode == 0xF1 {
            let mut b = [0u8; 8];
            b[..rest.len().min(8)].copy_from_slice(&rest[..rest.len().min(8)]);
            return par_large_dirty_case(cx, u64::from_le_bytes(b));
        }
        let mut u = Unstructured::new(rest);
        if *mode == 0 {
            return bitvec_case(cx, &mut u);
        }
        match u.int_in_range(0u8..=5).unwrap_or(3) {
            0 => bfv_case::<u8>(cx, &mut u),
            1 => bfv_case::<u16>(cx, &mut u),
            2 => bfv_case::<u32>(cx, &mut u),
            3 => bfv_case::<u64>(cx, &mut u),
            4 => bfv_case::<u128>(cx, &mut u),
            _ => bfv_case::<usize>(cx, &mut u),
        }
    }
}

/// Parallel bulk operations on backends of at least 200000 words (below that
/// rayon does not split `with_min_len(RAYON_MIN_LEN)` iterators and the
/// parallel code runs sequentially), over dirty storage: stale bits in the
/// last word and spare trailing words.
fn par_large_dirty_case(cx: &mut Ctx, j: u64) -> R {
    let threads = [0usize, 1, 2, 3][(j / 2) as usize % 4];
    cx.label(&format!("pool:{threads}"));
    in_pool(cx, threads, |cx| par_large_dirty_inner(cx, j))
}

fn par_large_dirty_inner(cx: &mut Ctx, j: u64) -> R {
    let full = [200_000usize, 400_000, 200_001, 300_007, 1_000_000, 250_000][j as usize % 6];
    let residual = [37usize, 0, 63, 1, 0, 17][(j / 2) as usize % 6];
    let spare = [0usize, 3, 200_000, 1, 400_001, 0][(j / 3) as usize % 6];
    let len = full * 64 + residual;
    let nw = len.div_ceil(64);
    cx.hash(&("par-large-dirty", j));
    cx.describe(|| format!("parallel bulk ops: {full} full words + {residual} bits, {spare} spare words, all garbage"));
    cx.label("parallel_large");
    cx.nontrivial_if(residual != 0 || spare != 0);
    let mut x = 0x2545_F491_4F6C_DD1Du64 ^ j;
    let mut image: Vec<usize> = (0..nw + spare).map(|_| xs(&mut x) as usize | 1).collect();
    if j % 4 == 3 {
        image.iter_mut().for_each(|w| *w = !0);
    }
    let lastmask = if residual == 0 { !0usize } else { (1usize << residual) - 1 };
    // expected backend after an operation that maps every logical bit through `f`
    let expect = |image: &[usize], f: &dyn Fn(usize) -> usize| -> Vec<usize> {
        let mut e = image.to_vec();
        for w in e[..len / 64].iter_mut() {
            *w = f(*w);
        }
        if residual != 0 {
            e[nw - 1] = (f(e[nw - 1]) & lastmask) | (e[nw - 1] & !lastmask);
        }
        e
    };
    let cmp = |cx: &mut Ctx, got: &[usize], want: &[usize], what: &str| -> R {
        if got != want {
            let i = (0..want.len()).find(|i| got[*i] != want[*i]).unwrap();
            let n = (0..want.len()).filter(|i| got[*i] != want[*i]).count();
            let region = if i >= nw { "a spare word" } else if i == nw - 1 && residual != 0 { "the last, partial word" } else { "a content word" };
            return Err(Fail::mismatch(&format!("par.large.{what}"), format!("{what} over {len} bits + {spare} spare words: backend word {i} ({region}) is {:#x}, expected {:#x}; {n} words differ", got[i], want[i])));
        }
        let _ = cx;
        Ok(())
    };
    let ones: usize = image[..len / 64].iter().map(|w| w.count_ones() as usize).sum::<usize>() + if residual != 0 { (image[nw - 1] & lastmask).count_ones() as usize } else { 0 };
    let mut bv = unsafe { BitVec::from_raw_parts(image.clone(), len) };
    let c = cx.must("par_count_ones", || bv.par_count_ones())?;
    cx.check_eq(c, ones, "par.large.par_count_ones", || format!("par_count_ones over {len} dirty bits + {spare} spare words"))?;
    let c = cx.must("count_ones", || bv.count_ones())?;
    cx.check_eq(c, ones, "par.large.count_ones", || format!("count_ones over {len} dirty bits + {spare} spare words"))?;
    cx.must("par_flip", || bv.par_flip())?;
    let want = expect(&image, &|w| !w);
    cmp(cx, bv.as_ref(), &want, "par_flip")?;
    cx.must("par_fill", || bv.par_fill(true))?;
    let want = expect(&image, &|_| !0);
    cmp(cx, bv.as_ref(), &want, "par_fill(true)")?;
    let c = cx.must("par_count_ones", || bv.par_count_ones())?;
    cx.check_eq(c, len, "par.large.par_count_ones", || format!("par_count_ones after par_fill(true) over {len} dirty bits"))?;
    cx.must("par_reset", || bv.par_reset())?;
    let want = expect(&image, &|_| 0);
    cmp(cx, bv.as_ref(), &want, "par_reset")?;
    cx.must("par_fill", || bv.par_fill(false))?;
    cmp(cx, bv.as_ref(), &want, "par_fill(false)")?;
    // sequential twins on the same storage
    cx.must("fill", || bv.fill(true))?;
    let want1 = expect(&image, &|_| !0);
    cmp(cx, bv.as_ref(), &want1, "fill(true)")?;
    cx.must("flip", || bv.flip())?;
    cmp(cx, bv.as_ref(), &want, "flip")?;
    drop(bv);
    // atomic twin
    let av: Vec<AtomicUsize> = image.iter().map(|w| AtomicUsize::new(*w)).collect();
    let mut a = unsafe { AtomicBitVec::from_raw_parts(av, len) };
    let snapshot = |a: &AtomicBitVec<Vec<AtomicUsize>>| -> Vec<usize> {
        let s: &[AtomicUsize] = a.as_ref();
        s.iter().map(|w| w.load(Ordering::Relaxed)).collect()
    };
    let c = cx.must("atomic.par_count_ones", || a.par_count_ones())?;
    cx.check_eq(c, ones, "par.large.atomic.par_count_ones", || format!("AtomicBitVec::par_count_ones over {len} dirty bits"))?;
    cx.must("atomic.par_flip", || a.par_flip(Ordering::Relaxed))?;
    cmp(cx, &snapshot(&a), &expect(&image, &|w| !w), "atomic.par_flip")?;
    cx.must("atomic.par_fill", || a.par_fill(true, Ordering::Relaxed))?;
    cmp(cx, &snapshot(&a), &expect(&image, &|_| !0), "atomic.par_fill(true)")?;
    cx.must("atomic.par_reset", || a.par_reset(Ordering::Relaxed))?;
    cmp(cx, &snapshot(&a), &expect(&image, &|_| 0), "atomic.par_reset")?;
    drop(a);
    // BitFieldVec::par_reset / par_reset_atomic over dirty storage
    let width = [7usize, 64, 1, 33, 13, 32][(j / 2) as usize % 6];
    let n = (full * 64 + residual) / width;
    let used = n * width;
    let uw = used.div_ceil(64);
    let mut img2 = image.clone();
    img2.truncate((uw + spare).min(image.len()));
    let mut v = unsafe { BitFieldVec::<usize, Vec<usize>>::from_raw_parts(img2.clone(), width, n) };
    if j % 2 == 0 {
        cx.must("bfv.par_reset", || v.par_reset())?;
    } else {
        let (bits, w, l) = v.into_raw_parts();
        let ab: Vec<AtomicUsize> = bits.into_iter().map(AtomicUsize::new).collect();
        let mut a = unsafe { AtomicBitFieldVec::<usize, Vec<AtomicUsize>>::from_raw_parts(ab, w, l) };
        cx.must("bfv.par_reset_atomic", || a.par_reset_atomic(Ordering::Relaxed))?;
        let (bits, w, l) = a.into_raw_parts();
        v = unsafe { BitFieldVec::from_raw_parts(bits.into_iter().map(|x| x.into_inner()).collect(), w, l) };
    }
    let mut want = img2.clone();
    for w in want[..used / 64].iter_mut() {
        *w = 0;
    }
    if used % 64 != 0 {
        want[uw - 1] &= !((1usize << (used % 64)) - 1);
    }
    let got: &[usize] = v.as_slice();
    if got != &want[..] {
        let i = (0..want.len()).find(|i| got[*i] != want[*i]).unwrap();
        return Err(Fail::mismatch("par.large.bfv.par_reset", format!("BitFieldVec par_reset ({n} x {width} bits, {} words backend): word {i} is {:#x}, expected {:#x}", want.len(), got[i], want[i])));
    }
    Ok(())
}
