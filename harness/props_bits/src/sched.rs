//! Cooperative scheduler for C13: participant threads run from one
//! `sux::verif_hook::sched_point()` to the next, one at a time, in the order
//! dictated by a schedule (a sequence of choices among the runnable threads).
//! An execution is a pure function of (jobs, schedule).

use std::cell::Cell;
use std::sync::mpsc::{channel, Sender};
use std::sync::{Arc, Condvar, Mutex, OnceLock};

pub const MAX_THREADS: usize = 3;

type Job = Box<dyn FnOnce() + Send + 'static>;

#[derive(Default)]
struct St {
    turn: Option<usize>,
    active: [bool; MAX_THREADS],
    waiting: [bool; MAX_THREADS],
    finished: [bool; MAX_THREADS],
    /// scheduling points passed (for statistics)
    points: u64,
}

struct Shared {
    m: Mutex<St>,
    cv: Condvar,
}

thread_local! {
    static ME: Cell<Option<usize>> = const { Cell::new(None) };
}

static SHARED: OnceLock<Arc<Shared>> = OnceLock::new();
static POOL: OnceLock<Mutex<Vec<Sender<Job>>>> = OnceLock::new();

fn shared() -> &'static Arc<Shared> {
    SHARED.get_or_init(|| Arc::new(Shared { m: Mutex::new(St::default()), cv: Condvar::new() }))
}

/// The callback installed into `sux::verif_hook::SCHED`: threads that are not
/// participants of a scheduled execution pass straight through.
fn hook() {
    if let Some(id) = ME.with(|m| m.get()) {
        yield_point(id);
    }
}

fn yield_point(id: usize) {
    let sh = shared();
    let mut g = sh.m.lock().unwrap();
    g.waiting[id] = true;
    g.points += 1;
    if g.turn == Some(id) {
        g.turn = None;
    }
    sh.cv.notify_all();
    while g.turn != Some(id) {
        g = sh.cv.wait(g).unwrap();
    }
    g.waiting[id] = false;
}

fn pool() -> &'static Mutex<Vec<Sender<Job>>> {
    POOL.get_or_init(|| {
        let _ = sux::verif_hook::SCHED.set(hook);
        let mut v = vec![];
        for id in 0..MAX_THREADS {
            let (tx, rx) = channel::<Job>();
            std::thread::spawn(move || {
                ME.with(|m| m.set(Some(id)));
                while let Ok(job) = rx.recv() {
                    // initial barrier: wait for the first grant
                    yield_point(id);
                    let r = std::panic::catch_unwind(std::panic::AssertUnwindSafe(job));
                    let sh = shared();
                    let mut g = sh.m.lock().unwrap();
                    g.finished[id] = true;
                    if r.is_err() {
                        g.points |= 1 << 63;
                    }
                    if g.turn == Some(id) {
                        g.turn = None;
                    }
                    sh.cv.notify_all();
                }
            });
            v.push(tx);
        }
        Mutex::new(v)
    })
}

/// Outcome of one scheduled execution.
pub struct Trace {
    /// (choice taken, number of runnable threads) at every decision
    pub decisions: Vec<(usize, usize)>,
    /// which thread ran at every step
    pub order: Vec<usize>,
    pub panicked: bool,
}

/// Runs `jobs` (at most MAX_THREADS) under the schedule: at every decision
/// `choose(step, runnable)` returns an index below `runnable`.
pub fn run_scheduled(jobs: Vec<Job>, mut choose: impl FnMut(usize, usize) -> usize) -> Trace {
    let n = jobs.len();
    assert!(n <= MAX_THREADS);
    let pool = pool().lock().unwrap();
    let sh = shared();
    {
        let mut g = sh.m.lock().unwrap();
        *g = St::default();
        for i in 0..n {
            g.active[i] = true;
        }
    }
    for (i, j) in jobs.into_iter().enumerate() {
        pool[i].send(j).unwrap();
    }
    let mut decisions = vec![];
    let mut order = vec![];
    let mut step = 0;
    loop {
        let mut g = sh.m.lock().unwrap();
        // wait until nobody is running and every live participant is parked
        loop {
            let parked = (0..n).all(|i| g.finished[i] || g.waiting[i]);
            if g.turn.is_none() && parked {
                break;
            }
            g = sh.cv.wait(g).unwrap();
        }
        let runnable: Vec<usize> = (0..n).filter(|i| !g.finished[*i]).collect();
        if runnable.is_empty() {
            let panicked = g.points >> 63 == 1;
            return Trace { decisions, order, panicked };
        }
        let c = choose(step, runnable.len()).min(runnable.len() - 1);
        decisions.push((c, runnable.len()));
        order.push(runnable[c]);
        g.turn = Some(runnable[c]);
        step += 1;
        sh.cv.notify_all();
    }
}

/// Stateless depth-first enumeration of all schedules: calls `exec(prefix)`
/// which must run the system choosing `prefix[i]` at decision `i` (and 0
/// beyond the prefix) and return the decisions actually taken. Returns the
/// number of schedules executed, or None when `limit` was exceeded.
pub fn enumerate(limit: usize, mut exec: impl FnMut(&[usize]) -> Result<Vec<(usize, usize)>, String>) -> Result<Option<usize>, String> {
    let mut prefix: Vec<usize> = vec![];
    let mut count = 0usize;
    loop {
        let taken = exec(&prefix)?;
        count += 1;
        if count > limit {
            return Ok(None);
        }
        // next schedule: increment the last decision that has an untried alternative
        let mut k = taken.len();
        loop {
            if k == 0 {
                return Ok(Some(count));
            }
            k -= 1;
            if taken[k].0 + 1 < taken[k].1 {
                prefix = taken[..k].iter().map(|d| d.0).collect();
                prefix.push(taken[k].0 + 1);
                break;
            }
        }
    }
}
