//! C06 — BitVec is observationally a Vec<bool> under any operation sequence.

use engine::*;
use std::sync::atomic::{AtomicUsize, Ordering};
use sux::bit_vec;
use crate::words::hinted;
use sux::bits::{AtomicBitVec, BitVec};
use sux::traits::{BitCount, BitLength};

pub struct C06;

#[derive(Debug, Clone, Hash)]
enum Init {
    New(usize),
    WithValue(usize, bool),
    WithCapacity(usize),
    MacroEmpty,
    MacroFalse(usize),
    MacroTrue(usize),
    MacroList(Vec<bool>),
    Collect(Vec<bool>),
    Extend(Vec<bool>),
    AtomicNew(usize),
    AtomicWithValue(usize, bool),
}

#[derive(Debug, Clone, Hash)]
enum Op {
    Push(bool),
    Pop,
    Set(usize, bool),
    Get(usize),
    Index(usize),
    Resize(usize, bool),
    Fill(bool, bool),
    Flip(bool),
    Reset(bool),
    Extend(Vec<bool>),
    IterOnes,
    IterZeros,
    Count,
    EqCopy,
    EqDirtyTail(u64),
    NeOneBit(usize),
    NeLen,
    ToOwned,
    CloneIt,
    ToVec,
    ToBoxed,
    ToAtomic,
    ToAtomicBoxed,
    Swap(usize, bool),
    OobGet(u8),
    OobSet(u8, bool),
    OobSwap(u8, bool),
    /// Writes garbage, through the safe `AsMut<[usize]>`, into the backend bits beyond `len`.
    Scribble(u64),
}

enum Sut {
    V(BitVec<Vec<usize>>),
    B(BitVec<Box<[usize]>>),
    A(AtomicBitVec<Vec<AtomicUsize>>),
    AB(AtomicBitVec<Box<[AtomicUsize]>>),
    Gone,
}

fn bools(u: &mut Unstructured, cap: usize) -> Vec<bool> {
    let n = len_class(u, cap);
    let mode = u.int_in_range(0u8..=3).unwrap_or(0);
    (0..n)
        .map(|i| match mode {
            0 => false,
            1 => true,
            2 => i % 2 == 0,
            _ => u.arbitrary::<bool>().unwrap_or(false),
        })
        .collect()
}

fn ord(i: usize) -> Ordering {
    [Ordering::Relaxed, Ordering::SeqCst, Ordering::Relaxed][i % 3]
}

/// Every ordering is legal for a read-modify-write (set, swap).
fn ord_rmw(i: usize) -> Ordering {
    [Ordering::Relaxed, Ordering::SeqCst, Ordering::Release, Ordering::AcqRel, Ordering::Acquire][i % 5]
}

/// The orderings that are legal for a load (get).
fn ord_load(i: usize) -> Ordering {
    [Ordering::Relaxed, Ordering::SeqCst, Ordering::Acquire][i % 3]
}

fn decode(u: &mut Unstructured, cap: usize) -> (Init, Vec<Op>) {
    let init = match u.int_in_range(0u8..=10).unwrap_or(0) {
        0 => Init::New(len_class(u, cap)),
        1 => Init::WithValue(len_class(u, cap), u.arbitrary().unwrap_or(false)),
        2 => Init::WithCapacity(len_class(u, cap)),
        3 => Init::MacroEmpty,
        4 => Init::MacroFalse(len_class(u, cap)),
        5 => Init::MacroTrue(len_class(u, cap)),
        6 => Init::MacroList(bools(u, 8)),
        7 => Init::Collect(bools(u, cap)),
        8 => Init::Extend(bools(u, cap)),
        9 => Init::AtomicNew(len_class(u, cap)),
        _ => Init::AtomicWithValue(len_class(u, cap), u.arbitrary().unwrap_or(false)),
    };
    let n_ops = u.int_in_range(0usize..=60).unwrap_or(0);
    let mut ops = Vec::with_capacity(n_ops);
    for _ in 0..n_ops {
        if u.is_empty() {
            break;
        }
        let b: bool = u.arbitrary().unwrap_or(false);
        let sel = u.arbitrary::<u16>().unwrap_or(0) as usize;
        let op = match u.int_in_range(0u8..=40).unwrap_or(0) {
            0..=4 => Op::Push(b),
            5 | 6 => Op::Pop,
            7..=10 => Op::Set(sel, b),
            11 | 12 => Op::Get(sel),
            13 => Op::Index(sel),
            14..=16 => Op::Resize(len_class(u, cap + cap / 4), b),
            17 | 18 => Op::Fill(b, sel % 2 == 0),
            19 | 20 => Op::Flip(b),
            21 => Op::Reset(b),
            22 => Op::Extend(bools(u, 130)),
            23 | 24 => Op::IterOnes,
            25 | 26 => Op::IterZeros,
            27 => Op::Count,
            28 => Op::EqCopy,
            29 => Op::EqDirtyTail(u.arbitrary().unwrap_or(1)),
            30 => Op::NeOneBit(sel),
            31 => Op::NeLen,
            32 => {
                if b {
                    Op::ToOwned
                } else {
                    Op::CloneIt
                }
            }
            33 => Op::ToVec,
            34 => Op::ToBoxed,
            35 => Op::ToAtomic,
            36 => Op::ToAtomicBoxed,
            37 => Op::Swap(sel, b),
            38 => Op::OobGet(sel as u8),
            40 => Op::Scribble(u.arbitrary::<u64>().unwrap_or(!0) | 1),
            _ => {
                if b {
                    Op::OobSet(sel as u8, sel & 256 != 0)
                } else {
                    Op::OobSwap(sel as u8, sel & 256 != 0)
                }
            }
        };
        ops.push(op);
    }
    (init, ops)
}

fn oob_index(k: u8, len: usize) -> usize {
    match k % 8 {
        0 => len,
        1 => len + 1,
        2 => len + 63,
        3 => len.div_ceil(64) * 64,
        4 => len.div_ceil(64) * 64 + 64,
        5 => 1usize << 32,
        6 => usize::MAX,
        _ => len + (k as usize),
    }
}

fn to_vec_form(s: Sut) -> BitVec<Vec<usize>> {
    match s {
        Sut::V(v) => v,
        Sut::B(b) => b.into(),
        Sut::A(a) => a.into(),
        Sut::AB(ab) => {
            let b: BitVec<Box<[usize]>> = ab.into();
            b.into()
        }
        Sut::Gone => unreachable!(),
    }
}

fn observe_plain<B: AsRef<[usize]>>(cx: &mut Ctx, v: &BitVec<B>, model: &[bool], full: bool) -> R {
    let len = cx.must("len", || v.len())?;
    cx.check_eq(len, model.len(), "len", || "len()".into())?;
    let bl = cx.must("BitLength::len", || BitLength::len(v))?;
    cx.check_eq(bl, model.len(), "len", || "BitLength::len".into())?;
    let it: Vec<bool> = cx.must("iter", || v.iter().collect())?;
    cx.check(it == model, "iter", || format!("iter() differs from model (len {})", model.len()))?;
    let it2: Vec<bool> = cx.must("into_iter", || v.into_iter().collect())?;
    cx.check(it2 == model, "iter", || "(&v).into_iter() differs from model".into())?;
    let step = if full || model.len() <= 256 { 1 } else { 37 };
    let mut i = 0;
    while i < model.len() {
        let g = cx.must("get", || v.get(i))?;
        cx.check_eq(g, model[i], "get", || format!("get({i})"))?;
        let g2 = cx.must("index", || v[i])?;
        cx.check_eq(g2, model[i], "index", || format!("v[{i}]"))?;
        i += step;
    }
    Ok(())
}

fn observe_atomic<B: AsRef<[AtomicUsize]>>(cx: &mut Ctx, v: &mut AtomicBitVec<B>, model: &[bool], full: bool) -> R {
    let len = cx.must("atomic.len", || v.len())?;
    cx.check_eq(len, model.len(), "len", || "atomic len()".into())?;
    let it: Vec<bool> = cx.must("atomic.iter", || v.iter().collect())?;
    cx.check(it == model, "atomic.iter", || "atomic iter() differs from model".into())?;
    let step = if full || model.len() <= 256 { 1 } else { 37 };
    let mut i = 0;
    while i < model.len() {
        let g = cx.must("atomic.get", || v.get(i, ord(i)))?;
        cx.check_eq(g, model[i], "atomic.get", || format!("atomic get({i})"))?;
        let g2 = cx.must("atomic.index", || v[i])?;
        cx.check_eq(g2, model[i], "atomic.index", || format!("atomic v[{i}]"))?;
        i += step;
    }
    Ok(())
}

fn observe(cx: &mut Ctx, s: &mut Sut, model: &[bool], full: bool) -> R {
    match s {
        Sut::V(v) => observe_plain(cx, v, model, full),
        Sut::B(v) => observe_plain(cx, v, model, full),
        Sut::A(v) => observe_atomic(cx, v, model, full),
        Sut::AB(v) => observe_atomic(cx, v, model, full),
        Sut::Gone => unreachable!(),
    }
}

/// Observations available on every non-atomic form.
fn plain_queries<B: AsRef<[usize]>>(cx: &mut Ctx, v: &BitVec<B>, model: &[bool], op: &Op) -> R {
    match op {
        Op::IterOnes => {
            let want: Vec<usize> = model.iter().enumerate().filter(|(_, b)| **b).map(|(i, _)| i).collect();
            let got: Vec<usize> = cx.must("iter_ones", || v.iter_ones().collect())?;
            cx.check(got == want, "iter_ones", || format!("iter_ones: got {:?}.. want {:?}.. (len {})", &got[..got.len().min(8)], &want[..want.len().min(8)], model.len()))
        }
        Op::IterZeros => {
            let want: Vec<usize> = model.iter().enumerate().filter(|(_, b)| !**b).map(|(i, _)| i).collect();
            let got: Vec<usize> = cx.must("iter_zeros", || v.iter_zeros().collect())?;
            cx.check(got == want, "iter_zeros", || format!("iter_zeros: got {:?}.. want {:?}.. (len {})", &got[..got.len().min(8)], &want[..want.len().min(8)], model.len()))
        }
        Op::Count => {
            let ones = model.iter().filter(|b| **b).count();
            let c1 = cx.must("count_ones", || v.count_ones())?;
            cx.check_eq(c1, ones, "count_ones", || "count_ones".into())?;
            let c0 = cx.must("count_zeros", || v.count_zeros())?;
            cx.check_eq(c0, model.len() - ones, "count_zeros", || "count_zeros".into())
        }
        Op::EqCopy => {
            let copy: BitVec = model.iter().copied().collect();
            let e = cx.must("eq", || *v == copy)?;
            cx.check(e, "eq", || "vector differs (==) from a copy built from the same bits".into())?;
            let ne = cx.must("ne", || *v != copy)?;
            cx.check(!ne, "eq", || "!= true against an identical copy".into())?;
            // borrowed views over the very same words
            let words: &[usize] = v.as_ref();
            let full = unsafe { BitVec::<&[usize]>::from_raw_parts(words, model.len()) };
            let e = cx.must("eq", || *v == full && full == *v)?;
            cx.check(e, "eq.view", || "== false against a borrowed view of the same words and length".into())?;
            if !model.is_empty() {
                let prefix = unsafe { BitVec::<&[usize]>::from_raw_parts(words, model.len() - 1) };
                let e = cx.must("eq", || *v == prefix || prefix == full)?;
                cx.check(!e, "eq.view", || format!("== true between a vector of {} bits and a view of its first {} bits over the same words", model.len(), model.len() - 1))?;
            }
            // Iterator protocol of the three iterators against the model's
            let script = (model.len() as u64).wrapping_mul(0x9E37_79B9_7F4A_7C15) ^ model.iter().take(40).fold(0u64, |a, b| a << 1 | *b as u64);
            iter_protocol(cx, "iter", v.iter(), model, script)?;
            let ones: Vec<usize> = (0..model.len()).filter(|i| model[*i]).collect();
            iter_protocol(cx, "iter_ones", v.iter_ones(), &ones, script ^ 0xAAAA)?;
            let zeros: Vec<usize> = (0..model.len()).filter(|i| !model[*i]).collect();
            iter_protocol(cx, "iter_zeros", v.iter_zeros(), &zeros, script ^ 0x5555)
        }
        Op::EqDirtyTail(g) => {
            // same logical bits, different bits beyond len (and extra words)
            let mut words: Vec<usize> = vec![0; model.len().div_ceil(64) + (*g as usize % 3)];
            for (i, b) in model.iter().enumerate() {
                if *b {
                    words[i / 64] |= 1 << (i % 64);
                }
            }
            let mut x = *g | 1;
            for (w, word) in words.iter_mut().enumerate() {
                x = x.wrapping_mul(0x9E3779B97F4A7C15).rotate_left(13) ^ 0xA5A5;
                let lo = w * 64;
                let mask: usize = if model.len() >= lo + 64 {
                    0
                } else if model.len() <= lo {
                    !0
                } else {
                    !0usize << (model.len() - lo)
                };
                *word |= (x as usize) & mask;
            }
            let other = unsafe { BitVec::from_raw_parts(words, model.len()) };
            let e = cx.must("eq", || *v == other)?;
            cx.check(e, "eq.dirty", || "== false against a vector that differs only beyond len".into())?;
            let e2 = cx.must("eq", || other == *v)?;
            cx.check(e2, "eq.dirty", || "== (flipped operands) false against a vector that differs only beyond len".into())
        }
        Op::NeOneBit(sel) => {
            if model.is_empty() {
                return Ok(());
            }
            let i = sel * model.len() >> 16;
            let mut m2 = model.to_vec();
            m2[i] = !m2[i];
            let other: BitVec = m2.into_iter().collect();
            let e = cx.must("eq", || *v == other)?;
            cx.check(!e, "eq.onebit", || format!("== true against a vector differing in bit {i}"))
        }
        Op::NeLen => {
            let mut m2 = model.to_vec();
            m2.push(false);
            let other: BitVec = m2.into_iter().collect();
            let e = cx.must("eq", || *v == other)?;
            cx.check(!e, "eq.len", || "== true against a longer vector".into())
        }
        Op::ToOwned => {
            let o = cx.must("to_owned", || v.to_owned())?;
            observe_plain(cx, &o, model, false)
        }
        _ => Ok(()),
    }
}

impl Property for C06 {
    fn id(&self) -> &'static str {
        "C06"
    }
    fn plan(&self, tier: Tier) -> Vec<Segment> {
        vec![
            Segment::random("histories", tier.pick(450_000, 8_000_000), &[0], 8, 600),
            Segment::random("histories-long-vectors", tier.pick(90_000, 1_200_000), &[1], 8, 600),
            Segment::enumerated("huge(>2^32 bits)", tier.pick(2, 6), &[9]),
        ]
    }
    fn rule(&self) -> &'static str {
        "case = (construction route, <=60 ops incl. extend from iterators with exact / (0,Some(n)) / (0,Some(usize::MAX)) / (0,None) size hints and a Scribble op that writes garbage through the safe AsMut<[usize]> into the backend bits beyond len) decoded from bytes; model = Vec<bool>; whole observable state (len, iter, get/index of every position) compared after every op. Every iterator is also driven through a generated script of next/nth/size_hint steps and one consuming adaptor (count, last, collect, step_by, skip, fold) in lock-step with the model's iterator. Equality is also taken between the vector and borrowed views over its own words (same length: equal; one bit shorter: different). Non-trivial: a shrink (pop/resize down) followed by an observation of ones/zeros/count/equality, or a fill/flip/reset mixed with a push/resize; distinct = distinct hash of the decoded history."
    }
    fn run(&self, data: &[u8], cx: &mut Ctx) -> R {
        let (mode, rest) = data.split_first().unwrap_or((&0, &[]));
        if *mode == 9 {
            let mut b = [0u8; 8];
            b[..rest.len().min(8)].copy_from_slice(&rest[..rest.len().min(8)]);
            return huge_case(cx, u64::from_le_bytes(b));
        }
        let cap = if *mode == 1 { 4200 } else { 200 };
        let mut u = Unstructured::new(rest);
        let (init, ops) = decode(&mut u, cap);
        cx.hash(&(&init, &ops));
        cx.describe(|| format!("init={:?} ops={:?}", init, ops));

        let mut model: Vec<bool>;
        let mut sut = match &init {
            Init::New(n) => {
                model = vec![false; *n];
                Sut::V(cx.must("new", || BitVec::new(*n))?)
            }
            Init::WithValue(n, b) => {
                model = vec![*b; *n];
                Sut::V(cx.must("with_value", || BitVec::with_value(*n, *b))?)
            }
            Init::WithCapacity(n) => {
                model = vec![];
                Sut::V(cx.must("with_capacity", || BitVec::with_capacity(*n))?)
            }
            Init::MacroEmpty => {
                model = vec![];
                Sut::V(cx.must("bit_vec![]", || bit_vec![])?)
            }
            Init::MacroFalse(n) => {
                model = vec![false; *n];
                let n = *n;
                Sut::V(if n % 2 == 0 { cx.must("bit_vec![false;n]", || bit_vec![false; n])? } else { cx.must("bit_vec![0;n]", || bit_vec![0; n])? })
            }
            Init::MacroTrue(n) => {
                model = vec![true; *n];
                let n = *n;
                Sut::V(if n % 2 == 0 { cx.must("bit_vec![true;n]", || bit_vec![true; n])? } else { cx.must("bit_vec![1;n]", || bit_vec![1; n])? })
            }
            Init::MacroList(l) => {
                // the list form is a macro over literals: mirror its expansion
                // for a handful of fixed arities
                let g = |i: usize| -> usize { l.get(i).copied().unwrap_or(false) as usize };
                let k = l.len().min(8);
                model = (0..k).map(|i| g(i) != 0).collect();
                Sut::V(cx.must("bit_vec![list]", || match k {
                    0 => bit_vec![],
                    1 => bit_vec![g(0)],
                    2 => bit_vec![g(0), g(1)],
                    3 => bit_vec![g(0), g(1), g(2)],
                    4 => bit_vec![g(0), g(1), g(2), g(3)],
                    5 => bit_vec![g(0), g(1), g(2), g(3), g(4)],
                    6 => bit_vec![g(0), g(1), g(2), g(3), g(4), g(5)],
                    7 => bit_vec![g(0), g(1), g(2), g(3), g(4), g(5), g(6)],
                    _ => bit_vec![g(0), g(1), g(2), g(3), g(4), g(5), g(6), g(7)],
                })?)
            }
            Init::Collect(l) => {
                model = l.clone();
                Sut::V(cx.must("collect", || l.iter().copied().collect::<BitVec>())?)
            }
            Init::Extend(l) => {
                model = l.clone();
                Sut::V(cx.must("extend", || {
                    let mut b = BitVec::new(0);
                    b.extend(l.iter().copied());
                    b
                })?)
            }
            Init::AtomicNew(n) => {
                model = vec![false; *n];
                Sut::A(cx.must("AtomicBitVec::new", || AtomicBitVec::new(*n))?)
            }
            Init::AtomicWithValue(n, b) => {
                model = vec![*b; *n];
                Sut::A(cx.must("AtomicBitVec::with_value", || AtomicBitVec::with_value(*n, *b))?)
            }
        };
        observe(cx, &mut sut, &model, true)?;

        let mut shrunk = false; // a shrink happened
        let mut shrunk_ones = false; // … that dropped ones
        let mut bulk = false;
        let mut grew = false;
        for (k, op) in ops.iter().enumerate() {
            let len = model.len();
            match op {
                Op::Push(_) | Op::Pop | Op::Resize(..) | Op::Extend(_) => {
                    // only the growable form supports these: convert first
                    let mut v = cx.must("to Vec form", || to_vec_form(std::mem::replace(&mut sut, Sut::Gone)))?;
                    match op {
                        Op::Push(b) => {
                            cx.must("push", || v.push(*b))?;
                            model.push(*b);
                            grew = true;
                        }
                        Op::Pop => {
                            let got = cx.must("pop", || v.pop())?;
                            let want = model.pop();
                            cx.check_eq(got, want, "pop", || "pop()".into())?;
                            if want.is_some() {
                                shrunk = true;
                                shrunk_ones |= want == Some(true);
                            }
                        }
                        Op::Resize(n, b) => {
                            cx.must("resize", || v.resize(*n, *b))?;
                            if *n < len {
                                shrunk = true;
                                shrunk_ones |= model[*n..].iter().any(|x| *x);
                                if (len - 1) / 64 > n.saturating_sub(1) / 64 || *n == 0 {
                                    cx.label("stale_trailing_words");
                                }
                            } else if *n > len {
                                grew = true;
                                if shrunk {
                                    cx.label("shrink_then_grow");
                                }
                            }
                            model.resize(*n, *b);
                        }
                        Op::Extend(l) => {
                            // the same bits behind iterators with different size hints
                            let kind = (l.len() as u64).wrapping_mul(0x9E37) >> 3;
                            cx.label_if(kind % 5 == 2, "extend_hint_upper=usize::MAX");
                            cx.must("extend", || v.extend(hinted(l, kind)))?;
                            model.extend(l.iter().copied());
                            grew |= !l.is_empty();
                        }
                        _ => unreachable!(),
                    }
                    if shrunk_ones && model.len() % 64 != 0 {
                        cx.label("stale_last_word");
                    }
                    sut = Sut::V(v);
                }
                Op::Set(sel, b) => {
                    if len > 0 {
                        let i = sel * len >> 16;
                        match &mut sut {
                            Sut::V(v) => cx.must("set", || v.set(i, *b))?,
                            Sut::B(v) => cx.must("set", || v.set(i, *b))?,
                            Sut::A(v) => cx.must("atomic.set", || v.set(i, *b, ord_rmw(k)))?,
                            Sut::AB(v) => cx.must("atomic.set", || v.set(i, *b, ord_rmw(k)))?,
                            Sut::Gone => unreachable!(),
                        }
                        model[i] = *b;
                    }
                }
                Op::Swap(sel, b) => {
                    if len > 0 {
                        let i = sel * len >> 16;
                        // swap exists on the atomic forms only
                        let old = match &mut sut {
                            Sut::A(v) => Some(cx.must("atomic.swap", || v.swap(i, *b, ord_rmw(k)))?),
                            Sut::AB(v) => Some(cx.must("atomic.swap", || v.swap(i, *b, ord_rmw(k)))?),
                            _ => None,
                        };
                        if let Some(old) = old {
                            cx.check_eq(old, model[i], "atomic.swap", || format!("swap({i}) return value"))?;
                            model[i] = *b;
                        }
                    }
                }
                Op::Get(sel) | Op::Index(sel) => {
                    if len > 0 {
                        let i = sel * len >> 16;
                        let got = match &mut sut {
                            Sut::V(v) => cx.must("get", || if matches!(op, Op::Get(_)) { v.get(i) } else { v[i] })?,
                            Sut::B(v) => cx.must("get", || if matches!(op, Op::Get(_)) { v.get(i) } else { v[i] })?,
                            Sut::A(v) => cx.must("atomic.get", || if matches!(op, Op::Get(_)) { v.get(i, ord_load(k)) } else { v[i] })?,
                            Sut::AB(v) => cx.must("atomic.get", || if matches!(op, Op::Get(_)) { v.get(i, ord_load(k)) } else { v[i] })?,
                            Sut::Gone => unreachable!(),
                        };
                        cx.check_eq(got, model[i], "get", || format!("get({i})"))?;
                    }
                }
                Op::Scribble(pat) => {
                    fn scribble(w: &mut [usize], len: usize, pat: u64) -> bool {
                        let mut x = pat;
                        let mut dirtied = false;
                        for (i, w) in w.iter_mut().enumerate() {
                            let lo = i * 64;
                            if lo + 64 <= len {
                                continue;
                            }
                            x ^= x << 13;
                            x ^= x >> 7;
                            x ^= x << 17;
                            let keep: usize = if len > lo { (1usize << (len - lo)) - 1 } else { 0 };
                            *w = (*w & keep) | (x as usize & !keep);
                            dirtied = true;
                        }
                        dirtied
                    }
                    let d = match &mut sut {
                        Sut::V(v) => cx.must("as_mut", || scribble(v.as_mut(), len, *pat))?,
                        Sut::B(v) => cx.must("as_mut", || scribble(v.as_mut(), len, *pat))?,
                        _ => false,
                    };
                    cx.label_if(d, "scribbled_beyond_len");
                }
                Op::Fill(b, par) => {
                    bulk = true;
                    match &mut sut {
                        Sut::V(v) => cx.must("fill", || if *par { v.par_fill(*b) } else { v.fill(*b) })?,
                        Sut::B(v) => cx.must("fill", || if *par { v.par_fill(*b) } else { v.fill(*b) })?,
                        Sut::A(v) => cx.must("atomic.fill", || if *par { v.par_fill(*b, ord(k)) } else { v.fill(*b, ord(k)) })?,
                        Sut::AB(v) => cx.must("atomic.fill", || if *par { v.par_fill(*b, ord(k)) } else { v.fill(*b, ord(k)) })?,
                        Sut::Gone => unreachable!(),
                    }
                    model.iter_mut().for_each(|x| *x = *b);
                }
                Op::Flip(par) => {
                    bulk = true;
                    match &mut sut {
                        Sut::V(v) => cx.must("flip", || if *par { v.par_flip() } else { v.flip() })?,
                        Sut::B(v) => cx.must("flip", || if *par { v.par_flip() } else { v.flip() })?,
                        Sut::A(v) => cx.must("atomic.flip", || if *par { v.par_flip(ord(k)) } else { v.flip(ord(k)) })?,
                        Sut::AB(v) => cx.must("atomic.flip", || if *par { v.par_flip(ord(k)) } else { v.flip(ord(k)) })?,
                        Sut::Gone => unreachable!(),
                    }
                    model.iter_mut().for_each(|x| *x = !*x);
                }
                Op::Reset(par) => {
                    bulk = true;
                    match &mut sut {
                        Sut::V(v) => cx.must("reset", || if *par { v.par_reset() } else { v.reset() })?,
                        Sut::B(v) => cx.must("reset", || if *par { v.par_reset() } else { v.reset() })?,
                        Sut::A(v) => cx.must("atomic.reset", || if *par { v.par_reset(ord(k)) } else { v.reset(ord(k)) })?,
                        Sut::AB(v) => cx.must("atomic.reset", || if *par { v.par_reset(ord(k)) } else { v.reset(ord(k)) })?,
                        Sut::Gone => unreachable!(),
                    }
                    model.iter_mut().for_each(|x| *x = false);
                }
                Op::IterOnes | Op::IterZeros | Op::Count | Op::EqCopy | Op::EqDirtyTail(_) | Op::NeOneBit(_) | Op::NeLen | Op::ToOwned => {
                    if shrunk {
                        cx.nontrivial();
                    }
                    match &mut sut {
                        Sut::V(v) => plain_queries(cx, v, &model, op)?,
                        Sut::B(v) => plain_queries(cx, v, &model, op)?,
                        Sut::A(v) => {
                            if matches!(op, Op::Count) {
                                atomic_count(cx, v, &model)?
                            }
                        }
                        Sut::AB(v) => {
                            if matches!(op, Op::Count) {
                                atomic_count(cx, v, &model)?
                            }
                        }
                        Sut::Gone => unreachable!(),
                    }
                }
                Op::CloneIt => match &mut sut {
                    Sut::V(v) => {
                        let c = cx.must("clone", || v.clone())?;
                        observe_plain(cx, &c, &model, false)?;
                    }
                    Sut::B(v) => {
                        let c = cx.must("clone", || v.clone())?;
                        observe_plain(cx, &c, &model, false)?;
                    }
                    _ => {}
                },
                Op::ToVec => {
                    let v = cx.must("to Vec form", || to_vec_form(std::mem::replace(&mut sut, Sut::Gone)))?;
                    sut = Sut::V(v);
                }
                Op::ToBoxed => {
                    let v = cx.must("to Vec form", || to_vec_form(std::mem::replace(&mut sut, Sut::Gone)))?;
                    sut = Sut::B(cx.must("Vec->Box", || v.into())?);
                }
                Op::ToAtomic => {
                    let v = cx.must("to Vec form", || to_vec_form(std::mem::replace(&mut sut, Sut::Gone)))?;
                    sut = Sut::A(cx.must("Vec->Atomic", || v.into())?);
                }
                Op::ToAtomicBoxed => {
                    let v = cx.must("to Vec form", || to_vec_form(std::mem::replace(&mut sut, Sut::Gone)))?;
                    let b: BitVec<Box<[usize]>> = cx.must("Vec->Box", || v.into())?;
                    sut = Sut::AB(cx.must("Box->AtomicBox", || b.into())?);
                }
                Op::OobGet(kx) => {
                    let i = oob_index(*kx, len);
                    cx.label("oob");
                    match &mut sut {
                        Sut::V(v) => {
                            cx.must_panic("get(oob)", || v.get(i))?;
                            cx.must_panic("index(oob)", || v[i])?
                        }
                        Sut::B(v) => {
                            cx.must_panic("get(oob)", || v.get(i))?;
                            cx.must_panic("index(oob)", || v[i])?
                        }
                        Sut::A(v) => {
                            cx.must_panic("atomic.get(oob)", || v.get(i, ord(k)))?;
                            cx.must_panic("atomic.index(oob)", || v[i])?
                        }
                        Sut::AB(v) => {
                            cx.must_panic("atomic.get(oob)", || v.get(i, ord(k)))?;
                            cx.must_panic("atomic.index(oob)", || v[i])?
                        }
                        Sut::Gone => unreachable!(),
                    }
                }
                Op::OobSet(kx, b) => {
                    let i = oob_index(*kx, len);
                    cx.label("oob");
                    match &mut sut {
                        Sut::V(v) => cx.must_panic("set(oob)", || v.set(i, *b))?,
                        Sut::B(v) => cx.must_panic("set(oob)", || v.set(i, *b))?,
                        Sut::A(v) => cx.must_panic("atomic.set(oob)", || v.set(i, *b, ord(k)))?,
                        Sut::AB(v) => cx.must_panic("atomic.set(oob)", || v.set(i, *b, ord(k)))?,
                        Sut::Gone => unreachable!(),
                    }
                }
                Op::OobSwap(kx, b) => {
                    let i = oob_index(*kx, len);
                    match &mut sut {
                        Sut::A(v) => cx.must_panic("atomic.swap(oob)", || v.swap(i, *b, ord(k)))?,
                        Sut::AB(v) => cx.must_panic("atomic.swap(oob)", || v.swap(i, *b, ord(k)))?,
                        _ => {}
                    }
                }
            }
            // whole observable state after every op
            observe(cx, &mut sut, &model, false)?;
            match model.len() {
                0 => cx.label("len=0"),
                1 => cx.label("len=1"),
                63 => cx.label("len=63"),
                64 => cx.label("len=64"),
                65 => cx.label("len=65"),
                n if n % 64 == 0 => cx.label("len%64=0"),
                _ => {}
            }
        }
        if bulk && grew {
            cx.nontrivial();
            cx.label("bulk+grow");
        }
        if shrunk {
            cx.label("shrunk");
        }
        // final: every position, and the positional iterators
        observe(cx, &mut sut, &model, true)?;
        let v = cx.must("to Vec form", || to_vec_form(std::mem::replace(&mut sut, Sut::Gone)))?;
        plain_queries(cx, &v, &model, &Op::IterOnes)?;
        plain_queries(cx, &v, &model, &Op::IterZeros)?;
        plain_queries(cx, &v, &model, &Op::Count)?;
        plain_queries(cx, &v, &model, &Op::EqCopy)?;
        Ok(())
    }
}

fn atomic_count<B: AsRef<[AtomicUsize]>>(cx: &mut Ctx, v: &AtomicBitVec<B>, model: &[bool]) -> R {
    let ones = model.iter().filter(|b| **b).count();
    let c1 = cx.must("atomic.count_ones", || v.count_ones())?;
    cx.check_eq(c1, ones, "atomic.count_ones", || "atomic count_ones".into())?;
    let c0 = cx.must("atomic.count_zeros", || v.count_zeros())?;
    cx.check_eq(c0, model.len() - ones, "atomic.count_zeros", || "atomic count_zeros".into())?;
    let c2 = cx.must("atomic.par_count_ones", || v.par_count_ones())?;
    cx.check_eq(c2, ones, "atomic.par_count_ones", || "atomic par_count_ones".into())
}

/// Vectors with more than 2^32 bits (and more than 2^32 ones): counts and
/// accesses beyond the 32-bit range, on the plain and on the atomic form.
fn huge_case(cx: &mut Ctx, j: u64) -> R {
    let len = (1usize << 32) + [100usize, 64, 4097, 1, 65, 1000][j as usize % 6];
    let value = j % 2 == 0;
    cx.hash(&("huge", j));
    cx.describe(|| format!("huge case {j}: with_value({len}, {value}), counts and accesses above 2^32 on BitVec and AtomicBitVec"));
    cx.label("len>2^32");
    cx.nontrivial();
    let mut b = cx.must("with_value", || BitVec::with_value(len, value))?;
    let ones = if value { len } else { 0 };
    let check_counts = |cx: &mut Ctx, b: &BitVec, ones: usize, what: &str| -> R {
        let c = cx.must("count_ones", || b.count_ones())?;
        cx.check_eq(c, ones, "count_ones", || format!("BitVec::count_ones {what} (len {len})"))?;
        let c = cx.must("count_zeros", || b.count_zeros())?;
        cx.check_eq(c, len - ones, "count_zeros", || format!("BitVec::count_zeros {what}"))
    };
    check_counts(cx, &b, ones, "after with_value")?;
    for i in [len - 1, 1 << 32, (1 << 32) - 1, len - 64] {
        let g = cx.must("get", || b.get(i))?;
        cx.check_eq(g, value, "get", || format!("get({i})"))?;
    }
    // two distinct positions at and above 2^32 (len - 1 is 2^32 itself when len = 2^32 + 1)
    let second = if len - 1 == 1 << 32 { (1usize << 32) - 1 } else { 1 << 32 };
    cx.must("set", || b.set(len - 1, !value))?;
    cx.must("set", || b.set(second, !value))?;
    let ones2 = if value { len - 2 } else { 2 };
    check_counts(cx, &b, ones2, "after two sets above 2^32")?;
    cx.must_panic("get(len)", || b.get(len))?;
    let mut a: AtomicBitVec = cx.must("Vec->Atomic", || b.into())?;
    let c = cx.must("atomic.count_ones", || a.count_ones())?;
    cx.check_eq(c, ones2, "atomic.count_ones", || format!("AtomicBitVec::count_ones with {ones2} ones (len {len})"))?;
    let c = cx.must("atomic.count_zeros", || a.count_zeros())?;
    cx.check_eq(c, len - ones2, "atomic.count_zeros", || format!("AtomicBitVec::count_zeros (len {len})"))?;
    let c = cx.must("atomic.par_count_ones", || a.par_count_ones())?;
    cx.check_eq(c, ones2, "atomic.par_count_ones", || format!("AtomicBitVec::par_count_ones (len {len})"))?;
    cx.must("atomic.flip", || a.flip(Ordering::Relaxed))?;
    let c = cx.must("atomic.count_ones", || a.count_ones())?;
    cx.check_eq(c, len - ones2, "atomic.count_ones", || format!("AtomicBitVec::count_ones after flip (len {len})"))?;
    let g = cx.must("atomic.get", || a.get(second, Ordering::Relaxed))?;
    cx.check_eq(g, value, "atomic.get", || format!("AtomicBitVec::get({second}) after flip"))?;
    cx.must("atomic.fill", || a.fill(true, Ordering::Relaxed))?;
    let c = cx.must("atomic.count_ones", || a.count_ones())?;
    cx.check_eq(c, len, "atomic.count_ones", || format!("AtomicBitVec::count_ones after fill(true) (len {len})"))?;
    let b: BitVec = cx.must("Atomic->Vec", || a.into())?;
    let c = cx.must("par_count_ones", || b.par_count_ones())?;
    cx.check_eq(c, len, "par_count_ones", || format!("BitVec::par_count_ones on {len} ones"))?;
    Ok(())
}
