use engine::Property;
pub mod c05;
pub mod c06;
pub mod c10;
pub mod c13;
pub mod c14;
pub mod sched;
pub mod words;

pub fn properties() -> Vec<Box<dyn Property>> {
    vec![Box::new(c05::C05), Box::new(c06::C06), Box::new(c10::C10), Box::new(c13::C13), Box::new(c14::C14)]
}
