use engine::Property;
pub mod c06;

pub fn properties() -> Vec<Box<dyn Property>> {
    vec![Box::new(c06::C06)]
}
