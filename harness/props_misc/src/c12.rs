//! C12 — no safe call reads or writes outside its buffers: it answers or it panics.
//!
//! Only the process outcome is judged here: a normal return or an unwinding
//! panic is fine, a worker death (std ub_checks abort in the checked profile,
//! AddressSanitizer report in the asan profile, a signal) is the violation.

use engine::*;
use lender::{IntoLender, Lender};
use props_dict::ef::{build_plain, decode_seq};
use props_func::fb::*;
use props_ranksel::bv::{build as build_bv, decode_desc};
use props_ranksel::stacks::{decode_params, menu, What};
use std::sync::atomic::Ordering;
use std::sync::{Arc, Mutex};
use sux::bits::{AtomicBitVec, BitFieldVec, BitVec};
use sux::dict::{RearCodedListBuilder, SliceSeq};
use sux::func::shard_edge::ShardEdge;
use sux::rank_sel::*;
use sux::traits::bit_field_slice::{BitFieldSlice, BitFieldSliceCore, BitFieldSliceMut};
use sux::traits::{IndexedDict, IndexedSeq, IntoIteratorFrom, Pred, Succ};
use sux::utils::{Modulo2Equation, Modulo2System, Sig, ToSig};

pub struct C12;

/// An argument from the whole usize domain, biased to the edges of `len`.
fn wild(u: &mut Unstructured, len: usize) -> usize {
    match u.int_in_range(0u8..=11).unwrap_or(0) {
        0 => len,
        1 => len.wrapping_add(1),
        2 => len.wrapping_sub(1),
        3 => len.wrapping_add(63),
        4 => len.wrapping_add(64),
        5 => 1 << 32,
        6 => 1 << 63,
        7 => usize::MAX,
        8 => usize::MAX - 1,
        9 => len.wrapping_mul(2),
        _ => u.arbitrary::<u64>().unwrap_or(0) as usize >> u.int_in_range(0u32..=63).unwrap_or(0),
    }
}

fn bitvec_ops(cx: &mut Ctx, u: &mut Unstructured) -> R {
    let len = len_class(u, 300);
    cx.label("BitVec");
    cx.label_if(len == 0, "empty");
    let mut b = match u.int_in_range(0u8..=2).unwrap_or(0) {
        0 => BitVec::new(len),
        1 => BitVec::with_capacity(len),
        _ => (0..len).map(|i| i % 3 == 0).collect(),
    };
    for _ in 0..u.int_in_range(1usize..=20).unwrap_or(5) {
        let l = b.len();
        let i = wild(u, l);
        match u.int_in_range(0u8..=14).unwrap_or(0) {
            0 => {
                cx.any(|| b.get(i));
            }
            1 => {
                cx.any(|| b.set(i, true));
            }
            2 => {
                cx.any(|| b[i]);
            }
            3 => {
                cx.any(|| b.iter_ones().count());
            }
            4 => {
                cx.any(|| b.iter_zeros().count());
            }
            5 => {
                cx.any(|| b.iter().count());
            }
            6 => {
                cx.any(|| b.pop());
            }
            7 => {
                cx.any(|| b.push(true));
            }
            8 => {
                let n = len_class(u, 600);
                cx.any(|| b.resize(n, i % 2 == 0));
            }
            9 => {
                cx.any(|| {
                    b.fill(true);
                    b.flip();
                    b.reset()
                });
            }
            10 => {
                let a: AtomicBitVec = std::mem::replace(&mut b, BitVec::new(0)).into();
                cx.any(|| a.get(i, Ordering::Relaxed));
                cx.any(|| a.set(i, true, Ordering::Relaxed));
                cx.any(|| a.swap(i, false, Ordering::SeqCst));
                cx.any(|| a[i]);
                b = a.into();
            }
            11 => {
                cx.any(|| sux::traits::BitCount::count_ones(&b));
            }
            12 => {
                let c: BitVec<Box<[usize]>> = std::mem::replace(&mut b, BitVec::new(0)).into();
                cx.any(|| c.get(i));
                cx.any(|| c.iter_ones().count());
                b = c.into();
            }
            _ => {
                cx.any(|| b.to_owned() == b);
            }
        }
    }
    Ok(())
}

fn bfv_ops<W: props_bits::words::TW + common_traits::CastableInto<W>>(cx: &mut Ctx, u: &mut Unstructured) -> R {
    let width = u.int_in_range(0usize..=W::WBITS).unwrap_or(3);
    let len = len_class(u, 200);
    cx.label("BitFieldVec");
    cx.label_if(len == 0, "empty");
    let mut v = match u.int_in_range(0u8..=2).unwrap_or(0) {
        0 => BitFieldVec::<W>::new(width, len),
        1 => BitFieldVec::<W>::with_capacity(width, len),
        _ => BitFieldVec::<W>::new_unaligned(width, len),
    };
    for _ in 0..u.int_in_range(1usize..=20).unwrap_or(5) {
        let l = BitFieldSliceCore::len(&v);
        let i = wild(u, l);
        let val = W::from128(value_class(u, 128));
        match u.int_in_range(0u8..=13).unwrap_or(0) {
            0 => {
                cx.any(|| v.get(i));
            }
            1 => {
                if width > 0 {
                    cx.any(|| v.set(i, val));
                }
            }
            2 => {
                cx.any(|| v.iter_from(i).count());
            }
            3 => {
                cx.any(|| v.get_unaligned(i));
            }
            4 => {
                cx.any(|| v.addr_of(i));
            }
            5 => {
                cx.any(|| v.push(val));
            }
            6 => {
                cx.any(|| v.pop());
            }
            7 => {
                let n = len_class(u, 300);
                cx.any(|| v.resize(n, val));
            }
            8 => {
                // copy with ranges starting anywhere
                let mut d = BitFieldVec::<W>::new(width, len_class(u, 100));
                let (from, to, n) = (wild(u, l), wild(u, 50), wild(u, l));
                cx.any(|| v.copy(from, &mut d, to, n));
            }
            9 => {
                let c = wild(u, l);
                if width > 0 {
                    cx.any(|| v.try_chunks_mut(c).map(|it| it.count()));
                }
            }
            10 => {
                cx.any(|| BitFieldVec::<W>::from_slice(&v).map(|x| BitFieldSliceCore::len(&x)));
            }
            11 => {
                cx.any(|| (&v).into_iter_from(i).count());
            }
            12 => {
                cx.any(|| v.clear());
            }
            _ => {
                if width > 0 {
                    cx.any(|| v.apply_in_place(|x| x));
                }
                cx.any(|| v.reset());
            }
        }
    }
    Ok(())
}

fn ranksel_ops(cx: &mut Ctx, u: &mut Unstructured) -> R {
    let desc = decode_desc(u, 1500, false);
    let mut params = decode_params(u);
    params.wild = true;
    let menu = menu();
    let e = &menu[engine::index(u, menu.len())];
    cx.label("rank/select");
    cx.label_if(desc.len == 0, "empty");
    let (bv, model) = build_bv(cx, &desc)?;
    // the oracle checks of C01/C02 already probe rank/select far beyond the
    // counts; `wild` adds out-of-range Index
    let w = What { rank: e.has("rank"), count: e.has("count"), index: e.has("index"), select: e.has("select"), select_zero: e.has("select_zero") };
    (e.run)(cx, bv, &model, &params, w)
}

fn ef_ops(cx: &mut Ctx, u: &mut Unstructured) -> R {
    let d = decode_seq(u, 120);
    cx.label("EliasFano");
    cx.label_if(d.values.is_empty(), "empty");
    let plain = build_plain(cx, &d)?;
    let n = d.values.len();
    let ef = cx.must("EfSeqDict", || unsafe { plain.map_high_bits(SelectAdaptConst::<_, _, 12, 3>::new).map_high_bits(SelectZeroAdaptConst::<_, _, 12, 3>::new) })?;
    let uu = props_dict::ef::effective_u(&d);
    for _ in 0..u.int_in_range(1usize..=24).unwrap_or(6) {
        let i = wild(u, n);
        let q = wild(u, uu);
        match u.int_in_range(0u8..=9).unwrap_or(0) {
            0 => {
                cx.any(|| ef.get(i));
            }
            1 => {
                cx.any(|| ef.index_of(q));
            }
            2 => {
                cx.any(|| ef.contains(q));
            }
            3 => {
                cx.any(|| ef.succ(q));
            }
            4 => {
                cx.any(|| ef.succ_strict(q));
            }
            5 => {
                cx.any(|| ef.pred(q));
            }
            6 => {
                cx.any(|| ef.pred_strict(q));
            }
            7 => {
                cx.any(|| ef.iter_from(i).count());
            }
            8 => {
                cx.any(|| (&ef).into_iter_from(i).take(5).count());
            }
            _ => {
                cx.any(|| ef.iter().count());
            }
        }
    }
    Ok(())
}

fn rcl_ops(cx: &mut Ctx, u: &mut Unstructured) -> R {
    let n = u.int_in_range(0usize..=40).unwrap_or(3);
    let k = u.int_in_range(1usize..=9).unwrap_or(4);
    cx.label("RearCodedList");
    cx.label_if(n == 0, "empty");
    let mut strings: Vec<String> = (0..n).map(|i| format!("{}{}", ["a", "ab", "abc", "b", ""][i % 5], i * 7 % 13)).collect();
    if u.arbitrary().unwrap_or(true) {
        strings.sort();
    }
    let mut b = RearCodedListBuilder::new(k);
    for s in &strings {
        b.push(s);
    }
    let l = b.build();
    let mut buf = vec![];
    for _ in 0..u.int_in_range(1usize..=20).unwrap_or(5) {
        let i = wild(u, n);
        // probes may contain NUL: only memory safety is judged
        let probe: String = match u.int_in_range(0u8..=5).unwrap_or(0) {
            0 => String::new(),
            1 => "a\0b".into(),
            2 => "\0".into(),
            3 => strings.get(i % n.max(1)).cloned().unwrap_or_default() + "\0zz",
            4 => "zzzzzzzz".into(),
            _ => strings.get(i % n.max(1)).cloned().unwrap_or_default(),
        };
        match u.int_in_range(0u8..=7).unwrap_or(0) {
            0 => {
                cx.any(|| l.get(i));
            }
            1 => {
                cx.any(|| l.get_in_place(i, &mut buf));
            }
            2 => {
                cx.any(|| l.iter_from(i).count());
            }
            3 => {
                cx.any(|| {
                    let mut le = l.lend_from(i);
                    let mut c = 0;
                    while le.next().is_some() {
                        c += 1;
                    }
                    c
                });
            }
            4 => {
                cx.any(|| l.index_of(probe.as_str()));
            }
            5 => {
                cx.any(|| l.contains(probe.as_str()));
            }
            6 => {
                cx.any(|| (&l).into_iter_from(i).count());
            }
            _ => {
                cx.any(|| {
                    let mut le = (&l).into_lender();
                    let mut c = 0;
                    while le.next().is_some() {
                        c += 1;
                    }
                    c
                });
            }
        }
    }
    Ok(())
}

fn func_ops<K: KeySrc, W: props_func::c07::TWord, D, S: Sig + Send + Sync, E: ShardEdge<S, 3>>(cx: &mut Ctx, n: usize, filter: bool, style: u8) -> R
where
    D: FuncBuild<K, W, S, E> + FilterBuild<K, W, S, E> + BitFieldSlice<W>,
    K::T: ToSig<S>,
    u64: common_traits::CastableInto<W>,
{
    let n = n.min(K::MAX);
    let logic = logic_name::<S, E>();
    cx.label(logic);
    cx.label_if(n == 0, "empty");
    cx.label_if(n == 1, "one_key");
    if mwhc_never_converges(logic, n) && cx.excluded(KF_MWHC) {
        return Ok(());
    }
    let keys = Arc::new(props_func::c07::gen_keys::<K>(n, style));
    let cfg = Cfg::default();
    if filter {
        let kl = K::lender(keys.clone(), Fault::None, Arc::new(Mutex::new(Log::default())));
        let bits = props_func::c08::pick_bits(style, W::WBITS as usize, <D as FilterBuild<K, W, S, E>>::IS_BFV);
        if let Some(Ok(f)) = cx.any(|| <D as FilterBuild<K, W, S, E>>::build_filter(&cfg, n, kl, bits)) {
            for i in 0..300 {
                let q = K::probe(i, style);
                cx.any(|| f.contains(K::as_t(&q)));
                cx.any(|| f[K::as_t(&q)]);
                cx.any(|| f.get(K::as_t(&q)));
            }
            cx.any(|| (f.len(), f.is_empty(), f.hash_bits()));
        }
    } else {
        let values = Arc::new(props_func::c07::gen_values::<W>(n, 3, 9));
        let kl = K::lender(keys.clone(), Fault::None, Arc::new(Mutex::new(Log::default())));
        let vl = PlanLender::new(values, Fault::None, "values", Arc::new(Mutex::new(Log::default())));
        if let Some(Ok(f)) = cx.any(|| <D as FuncBuild<K, W, S, E>>::build(&cfg, n, kl, vl)) {
            for i in 0..300 {
                let q = K::probe(i, style);
                cx.any(|| f.get(K::as_t(&q)));
            }
            cx.any(|| (f.len(), f.is_empty()));
        }
    }
    Ok(())
}

fn misc_ops(cx: &mut Ctx, u: &mut Unstructured) -> R {
    cx.label("SliceSeq/Modulo2System");
    let n = u.int_in_range(0usize..=20).unwrap_or(3);
    let v: Vec<usize> = (0..n).collect();
    let s = SliceSeq::new(v);
    for _ in 0..6 {
        let i = wild(u, n);
        cx.any(|| s.get(i));
        cx.any(|| (&s).into_iter_from(i).count());
    }
    // check() with a vector of the wrong length
    let nv = u.int_in_range(1usize..=8).unwrap_or(3);
    let mut sys = Modulo2System::<usize>::new(nv);
    for i in 0..u.int_in_range(0usize..=5).unwrap_or(2) {
        sys.push(unsafe { Modulo2Equation::from_parts(vec![(i % nv) as u32], i) });
    }
    let l = wild(u, nv) % 64;
    cx.any(|| sys.check(&vec![0usize; l]));
    Ok(())
}

impl Property for C12 {
    fn id(&self) -> &'static str {
        "C12"
    }
    fn plan(&self, tier: Tier) -> Vec<Segment> {
        vec![
            Segment::random("BitVec", tier.pick(150_000, 800_000), &[0], 16, 200),
            Segment::random("BitFieldVec", tier.pick(200_000, 1_000_000), &[1], 16, 200),
            Segment::random("rank/select stacks", tier.pick(150_000, 800_000), &[2], 16, 200),
            Segment::random("EliasFano", tier.pick(150_000, 800_000), &[3], 16, 300),
            Segment::random("RearCodedList", tier.pick(100_000, 600_000), &[4], 16, 200),
            Segment::random("VFunc/VFilter", tier.pick(10_000, 60_000), &[5], 8, 40),
            Segment::random("misc", tier.pick(25_000, 120_000), &[6], 8, 60),
            Segment::random("Modulo2Equation/Modulo2System", tier.pick(100_000, 600_000), &[7], 8, 120),
            // in-domain and out-of-domain select/rank on vectors above 2^32 bits (wrong answers are not judged here)
            Segment::enumerated("huge(>2^32 bits) rank/select", tier.pick(6, 40), &[8]),
        ]
    }
    fn rule(&self) -> &'static str {
        "case = op sequence over an explicit menu of SAFE public methods on generated structures (including empty and minimal ones) with arguments from the whole usize/string domain (len, len+-1, len+63/64, count+1, 2^32, 2^63, usize::MAX, random): BitVec/AtomicBitVec get/set/swap/Index/iter/iter_ones/iter_zeros/push/pop/resize/fill/flip/reset/to_owned/count; BitFieldVec<u8,u16,u64,u128> get/set/iter_from/into_iter_from/get_unaligned/addr_of/push/pop/resize/clear/copy/try_chunks_mut/from_slice/apply_in_place/reset; every rank/select stack of the C01/C02 menu: rank, rank_zero, select, select_zero far beyond the counts and Index out of range; Elias-Fano get/index_of/contains/succ/succ_strict/pred/pred_strict/iter_from/into_iter_from; rear-coded list get/get_in_place/iter_from/lend_from/into_iter_from/index_of/contains with probes that may contain NUL; VFunc::get and VFilter::contains/Index/get on never-inserted keys for every row of the builder table including functions over 0 and 1 keys; SliceSeq::get; Modulo2System::check with a wrong-length vector; rank/select/select_zero of the selection structures on vectors above 2^32 bits (mixed span classes, sparse, dense); Modulo2Equation::add on arbitrary pairs of sorted variable lists (disjoint, nested, equal, empty), Modulo2System push/gaussian_elimination/lazy_gaussian_elimination on generated systems including variables at or beyond num_vars. *_unchecked methods and the unaligned queries of functions/filters are never called. Oracle = process outcome only (a return value or an unwinding panic is fine; a worker death - std ub_checks abort, AddressSanitizer report, signal - is the violation). Non-trivial: at least one out-of-domain argument on a non-empty structure, or any call on an empty one; distinct = distinct hash of the case bytes."
    }
    fn run(&self, data: &[u8], cx: &mut Ctx) -> R {
        let (mode, rest) = data.split_first().unwrap_or((&0, &[]));
        let mut u = Unstructured::new(rest);
        cx.nontrivial();
        cx.describe(|| format!("mode {mode}, {} bytes: {}", rest.len(), engine::hex(&rest[..rest.len().min(48)])));
        match *mode {
            0 => bitvec_ops(cx, &mut u),
            1 => match u.int_in_range(0u8..=3).unwrap_or(0) {
                0 => bfv_ops::<u8>(cx, &mut u),
                1 => bfv_ops::<u16>(cx, &mut u),
                2 => bfv_ops::<u64>(cx, &mut u),
                _ => bfv_ops::<u128>(cx, &mut u),
            },
            2 => ranksel_ops(cx, &mut u),
            3 => ef_ops(cx, &mut u),
            4 => rcl_ops(cx, &mut u),
            5 => {
                let row = u.int_in_range(0u8..=N_ROWS - 1).unwrap_or(0);
                let n = [0usize, 1, 2, 3, 10, 100, 1000][u.int_in_range(0usize..=6).unwrap_or(0)];
                let filter: bool = u.arbitrary().unwrap_or(false);
                let style = u.int_in_range(0u8..=2).unwrap_or(0);
                props_func::with_row!(row, |K, W, D, S, E| func_ops::<K, W, D, S, E>(cx, n, filter, style))
            }
            8 => {
                let mut b = [0u8; 8];
                b[..rest.len().min(8)].copy_from_slice(&rest[..rest.len().min(8)]);
                let i = u64::from_le_bytes(b);
                // mixed-span patterns first, then the other huge patterns
                let j = if i % 2 == 0 { 2000 + i / 2 } else { i / 2 };
                cx.label("len>2^32");
                props_ranksel::huge::OUTCOME_ONLY.store(true, Ordering::Relaxed);
                let r = if i % 4 == 3 { props_ranksel::huge::rank_case(cx, j) } else { props_ranksel::huge::select_case(cx, j) };
                props_ranksel::huge::OUTCOME_ONLY.store(false, Ordering::Relaxed);
                match r {
                    // only the process outcome counts for this property
                    Err(f) if f.class == Class::Mismatch || f.class == Class::Panic => Ok(()),
                    other => other,
                }
            }
            7 => mod2_ops(cx, &mut u),
            _ => misc_ops(cx, &mut u),
        }
    }
}

/// The safe surface of `sux::utils::mod2_sys`: `add` merges through raw
/// pointers, the solvers index by variable.
fn mod2_ops(cx: &mut Ctx, u: &mut Unstructured) -> R {
    let nv = u.int_in_range(1usize..=40).unwrap_or(5);
    let ne = u.int_in_range(0usize..=12).unwrap_or(3);
    let wild_vars: bool = u.ratio(1u8, 8).unwrap_or(false);
    cx.label_if(wild_vars, "vars>=num_vars");
    let mut eqs: Vec<(Vec<u32>, usize)> = Vec::new();
    for _ in 0..ne {
        let mask: u64 = match u.int_in_range(0u8..=3).unwrap_or(0) {
            0 => u.arbitrary::<u64>().unwrap_or(0) & u.arbitrary::<u64>().unwrap_or(0) & u.arbitrary::<u64>().unwrap_or(0),
            1 => u.arbitrary::<u64>().unwrap_or(0),
            2 => 1u64 << u.int_in_range(0u32..=63).unwrap_or(0),
            _ => 0,
        };
        let mut vars: Vec<u32> = (0..64u32).filter(|b| mask >> b & 1 == 1 && (*b as usize) < nv).collect();
        if wild_vars {
            vars.push(nv as u32 + u.int_in_range(0u32..=3).unwrap_or(0));
            if u.ratio(1u8, 4).unwrap_or(false) {
                vars.push(u32::MAX);
            }
        }
        let c = u.arbitrary::<u8>().unwrap_or(0) as usize & [1usize, 3, 255][u.int_in_range(0usize..=2).unwrap_or(0)];
        eqs.push((vars, c));
    }
    cx.hash(&(nv, &eqs));
    // add on every ordered pair (the crate only ever adds equations sharing a variable)
    for i in 0..eqs.len().min(6) {
        for j in 0..eqs.len().min(6) {
            let (a, b) = (&eqs[i], &eqs[j]);
            let mut x = unsafe { Modulo2Equation::<usize>::from_parts(a.0.clone(), a.1) };
            let y = unsafe { Modulo2Equation::<usize>::from_parts(b.0.clone(), b.1) };
            let disjoint = !a.0.iter().any(|v| b.0.contains(v));
            cx.label_if(disjoint && !a.0.is_empty() && !b.0.is_empty(), "add.disjoint");
            cx.label_if(a.0.is_empty() != b.0.is_empty(), "add.one_empty");
            cx.any(|| x.add(&y));
            cx.any(|| format!("{x:?}").len());
        }
    }
    for lazy in [false, true] {
        let mut sys = Modulo2System::<usize>::new(nv);
        for (vars, c) in &eqs {
            sys.push(unsafe { Modulo2Equation::from_parts(vars.clone(), *c) });
        }
        // judged by the process outcome only: an answer, an error or a panic
        let solved = cx.any(|| if lazy { sys.lazy_gaussian_elimination().is_ok() } else { sys.gaussian_elimination().is_ok() });
        cx.label_if(solved == Some(true), "mod2.solved");
        cx.label_if(solved == Some(false), "mod2.unsolvable");
    }
    Ok(())
}
