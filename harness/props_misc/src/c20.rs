//! C20 — rewinding an input lender replays exactly the same sequence of items.

use engine::*;
use lender::Lender;
use std::io::{BufReader, Cursor, Seek, Write};
use sux::utils::{FromIntoIterator, GzipLineLender, LineLender, RewindableIoLender, ZstdLineLender};

pub struct C20;

/// Identifier of the open known finding: `lender::Take` forgets how many
/// items it was created with, so rewinding a `Take` after consuming items
/// yields fewer items.
pub const KF_TAKE: &str = "take-rewind-after-consume";

#[derive(Debug, Clone, Hash)]
enum HOp {
    Next(usize),
    Rewind,
}

#[derive(Debug, Clone, Hash)]
struct Case {
    kind: u8,
    take: Option<usize>,
    text: Vec<u8>,
    items: Vec<u32>,
    ops: Vec<HOp>,
    bufcap: usize,
}

const N_KINDS: u8 = 10;

fn gen_text(u: &mut Unstructured, big: bool) -> Vec<u8> {
    let n = match u.int_in_range(0u8..=6).unwrap_or(3) {
        0 => 0,
        1 => 1,
        2 => 2,
        _ => u.int_in_range(0usize..=if big { 400 } else { 30 }).unwrap_or(0),
    };
    let crlf_mode = u.int_in_range(0u8..=2).unwrap_or(0);
    let mut out = vec![];
    for i in 0..n {
        let line: String = match u.int_in_range(0u8..=11).unwrap_or(0) {
            0 | 1 => String::new(),
            2 => "\r".into(),
            3 => "a\rb".into(),
            // a line that is not UTF-8 (Latin-1 text, a truncated or overlong sequence): the lender yields an error
            // item for it and goes on with the next line
            4 if i % 4 == 1 => {
                out.extend_from_slice([&b"b\xE9ta"[..], &b"\xFF"[..], &b"caf\xE2\x82"[..], &b"ok\xC0\xAFok"[..]][i / 4 % 4]);
                String::new()
            }
            4 => "x\r\r".into(),
            5 => "héllo wörld €😀".into(),
            6 if big => {
                // a long line, longer than the BufReader
                let c = (b'a' + (i % 26) as u8) as char;
                std::iter::repeat(c).take(if i % 3 == 0 { 10_000 } else { 8192 - 1 + i % 3 }).collect()
            }
            // a first line that a "smart" reader might treat specially: byte-order mark, comment markers
            7 if i == 0 => match n % 4 {
                0 => "\u{feff}key0".into(),
                2 => "\u{feff}".into(),
                3 => "#key0".into(),
                _ => "key0".into(),
            },
            7 => format!("key{i}"),
            _ => {
                let l = u.int_in_range(0usize..=20).unwrap_or(0);
                (0..l).map(|_| (u.int_in_range(0x20u8..=0x7e).unwrap_or(b'a')) as char).collect()
            }
        };
        out.extend_from_slice(line.as_bytes());
        let last = i == n - 1;
        let term: &[u8] = match crlf_mode {
            0 => b"\n",
            1 => b"\r\n",
            _ => {
                if u.arbitrary::<bool>().unwrap_or(false) {
                    b"\r\n"
                } else {
                    b"\n"
                }
            }
        };
        if !last || u.int_in_range(0u8..=2).unwrap_or(0) != 0 {
            out.extend_from_slice(term);
        }
    }
    out
}

/// What a line that is not valid UTF-8 stands for in the expected sequence: the
/// lender must yield an error item there (std's `read_line` consumes the line
/// and reports `InvalidData`), in every pass alike.
const NOT_UTF8: &str = "\u{0}<not UTF-8>";

/// Last element of an expected sequence taken from the first pass of a fresh
/// lender when that pass ended in an error of the source: every later pass
/// must fail at the same place, and nothing is asked after it.
const TERMINAL_ERR: &str = "\u{0}<source error>";

/// The harness' own splitter: split at '\n', drop one preceding '\r'; a
/// non-empty unterminated tail is a line.
fn split_lines(text: &[u8]) -> Vec<String> {
    let mut out = vec![];
    let mut rest = text;
    while !rest.is_empty() {
        let (line, next, terminated) = match rest.iter().position(|b| *b == b'\n') {
            Some(i) => (&rest[..i], &rest[i + 1..], true),
            None => (rest, &rest[rest.len()..], false),
        };
        match std::str::from_utf8(line) {
            // a CR belongs to the terminator only when there is a terminator
            Ok(l) if terminated => out.push(l.strip_suffix('\r').unwrap_or(l).to_string()),
            Ok(l) => out.push(l.to_string()),
            Err(_) => out.push(NOT_UTF8.to_string()),
        }
        rest = next;
    }
    out
}

fn decode(u: &mut Unstructured, big: bool) -> Case {
    // the history is decoded first (as codes relative to the input length),
    // so that running out of bytes shortens the input, not the history
    let kind = u.int_in_range(0u8..=N_KINDS - 1).unwrap_or(0);
    let take_code = u.int_in_range(0u8..=11).unwrap_or(11);
    let take_any = u.arbitrary::<u8>().unwrap_or(0) as usize;
    let nops = u.int_in_range(1usize..=12).unwrap_or(3);
    let mut codes: Vec<(bool, u8, usize)> = vec![];
    let mut rewinds = 0;
    for i in 0..nops {
        let c = u.int_in_range(0u8..=2).unwrap_or(if i % 2 == 1 { 0 } else { 1 });
        if rewinds < 6 && c == 0 {
            codes.push((true, 0, 0));
            rewinds += 1;
        } else {
            codes.push((false, u.int_in_range(0u8..=6).unwrap_or(5), u.arbitrary::<u8>().unwrap_or(77) as usize));
        }
    }
    let bufcap = [8192usize, 1, 7, 64, 4096][u.int_in_range(0usize..=4).unwrap_or(0)];
    let n_items = u.int_in_range(0usize..=12).unwrap_or(5);
    let items: Vec<u32> = (0..n_items).map(|i| u.arbitrary::<u8>().map(|x| x as u32 * 16777259).unwrap_or(i as u32)).collect();
    let text = gen_text(u, big);
    let len = if kind == 7 || kind == 8 { items.len() } else { split_lines(&text).len() };
    let take = match take_code {
        0 => Some(0),
        1 => Some(1),
        2 => Some(len.saturating_sub(1)),
        3 => Some(len),
        4 => Some(len + 1),
        5 => Some(take_any * (len + 3) >> 8),
        _ => None,
    };
    let mut ops = vec![];
    for (rw, c, any) in codes {
        if rw {
            ops.push(HOp::Rewind);
        } else {
            ops.push(HOp::Next(match c {
                0 => 0,
                1 => 1,
                2 => len + 1,
                3 => len,
                4 => len.saturating_sub(1),
                _ => any * (len + 2) >> 8,
            }));
        }
    }
    // always finish with a rewind and a full pass
    ops.push(HOp::Rewind);
    ops.push(HOp::Next(len + 1));
    Case { kind, take, text, items, ops, bufcap }
}

/// One line far longer than any buffer a lender could use (2^16 .. 2^28 bytes, thorough: 2^30), between
/// short lines; every line is one item in every pass.
fn huge_line_case(j: u64, thorough: bool) -> Case {
    // (kind, length of the long line, multi-byte filler)
    let menu: [(u8, usize, bool); 10] = [
        (0, (1 << 28) + 5, false),
        (3, (1 << 24) + 3, false),
        (5, (1 << 26) + 1, false),
        (2, (1 << 28) + 6, true),
        (0, (1 << 16) + 1, true),
        (1, (1 << 27) + 9, false),
        (4, (1 << 28) + 11, false),
        (6, (1 << 28) + 1, false),
        (2, (1 << 29) + 7, false),
        (0, (1 << 30) + 3, true),
    ];
    let (kind, long, multibyte) = menu[j as usize % menu.len()];
    let long = if thorough || long <= (1 << 28) + 16 { long } else { (1 << 28) + 16 };
    let mut text: Vec<u8> = b"ab\n\ncd\r\n".to_vec();
    if multibyte {
        // 3-byte characters: a cut at any power of two falls inside a character
        let ch = "\u{20ac}".as_bytes();
        text.push(b'y');
        while text.len() < long {
            text.extend_from_slice(ch);
        }
    } else {
        text.resize(text.len() + long, b'x');
    }
    text.extend_from_slice(if j % 2 == 0 { b"\r\ntail\n" } else { b"\ntail" });
    let len = 5;
    let ops = vec![HOp::Next(3), HOp::Rewind, HOp::Next(len + 1), HOp::Rewind, HOp::Next(4), HOp::Rewind, HOp::Next(len + 1)];
    Case { kind, take: None, text, items: vec![], ops, bufcap: [8192usize, 1 << 20, 64][j as usize % 3] }
}

fn drive<T: ?Sized, L: RewindableIoLender<T>>(cx: &mut Ctx, l: L, oracle: &[String], show: &dyn Fn(&T) -> String, ops: &[HOp], is_take: bool) -> R {
    let mut l = Some(l);
    let mut pos = 0usize;
    let mut pass = 0usize;
    let mut consumed_total = 0usize;
    let mut ended = false;
    for op in ops {
        match op {
            HOp::Next(j) => {
                for _ in 0..*j {
                    if ended {
                        break; // behaviour after the end of a pass is not part of the property
                    }
                    let lend = l.as_mut().unwrap();
                    let got: Option<Result<String, String>> = cx.must("next", || lend.next().map(|r| r.map(|t| show(t)).map_err(|e| e.to_string())))?;
                    match (got, oracle.get(pos)) {
                        (None, None) => ended = true,
                        (Some(Ok(s)), Some(w)) => {
                            cx.check(s == *w, "item", || format!("pass {pass}, item {pos}: got {:?}, expected {:?}", trunc(&s), trunc(w)))?;
                            pos += 1;
                            consumed_total += 1;
                        }
                        (Some(Err(_)), Some(w)) if w == NOT_UTF8 => {
                            pos += 1;
                            consumed_total += 1;
                        }
                        (Some(Err(_)), Some(w)) if w == TERMINAL_ERR => {
                            pos += 1;
                            consumed_total += 1;
                            ended = true;
                        }
                        (Some(Err(e)), w) => return Err(Fail::mismatch("item.err", format!("item.err: pass {pass}, item {pos}: the lender returned the error {e:?}, expected {:?}", w.map(|x| trunc(x))))),
                        (None, Some(w)) => return Err(Fail::mismatch("item.missing", format!("item.missing: pass {pass} ended after {pos} items, expected {} (next would be {:?})", oracle.len(), trunc(w)))),
                        (Some(Ok(s)), None) => return Err(Fail::mismatch("item.extra", format!("item.extra: pass {pass} yields {:?} after its {} expected items", trunc(&s), oracle.len()))),
                    }
                }
            }
            HOp::Rewind => {
                if is_take && pos > 0 && cx.excluded(KF_TAKE) {
                    // open known finding: excluded by construction, the rest
                    // of this history is not run
                    return Ok(());
                }
                if pos > 0 && !oracle.is_empty() {
                    cx.nontrivial();
                    cx.label("rewind_after_consume");
                }
                cx.label_if(pos > 0 && pos < oracle.len(), "rewind_mid_pass");
                cx.label_if(ended, "rewind_after_end");
                let old = l.take().unwrap();
                let r = cx.must("rewind", || old.rewind().map_err(|e| e.to_string()))?;
                match r {
                    Ok(n) => l = Some(n),
                    Err(e) => return Err(Fail::mismatch("rewind.err", format!("rewind.err: rewind() after pass {pass} ({pos} items consumed) failed: {e}"))),
                }
                pos = 0;
                pass += 1;
                ended = false;
            }
        }
    }
    let _ = consumed_total;
    Ok(())
}

fn trunc(s: &str) -> &str {
    let mut c = s.len().min(50);
    while !s.is_char_boundary(c) {
        c -= 1;
    }
    &s[..c]
}

fn zstd_bytes(text: &[u8]) -> Vec<u8> {
    zstd::encode_all(text, 1).expect("zstd compression")
}

/// Where to cut the text into separately compressed frames / members
/// (derived from the case, not from fresh bytes): 1 to 3 pieces, cuts anywhere,
/// also in the middle of a line.
fn pieces<'a>(text: &'a [u8], c: &Case) -> Vec<&'a [u8]> {
    let k = match c.items.len() % 4 {
        2 => 2,
        3 => 3,
        _ => 1,
    };
    if text.len() < k || k == 1 {
        return vec![text];
    }
    let jitter = c.items.first().copied().unwrap_or(0) as usize;
    let mut cuts: Vec<usize> = (1..k).map(|i| (text.len() * i / k + jitter % 7).min(text.len())).collect();
    cuts.dedup();
    let mut out = vec![];
    let mut a = 0;
    for cpos in cuts {
        out.push(&text[a..cpos]);
        a = cpos;
    }
    out.push(&text[a..]);
    out
}

fn gzip_bytes(text: &[u8]) -> Vec<u8> {
    let mut e = flate2::write::GzEncoder::new(Vec::new(), flate2::Compression::fast());
    e.write_all(text).unwrap();
    e.finish().unwrap()
}

fn temp_with(bytes: &[u8]) -> std::fs::File {
    let mut f = tempfile::tempfile().expect("tempfile");
    f.write_all(bytes).unwrap();
    f.rewind().unwrap();
    f
}

macro_rules! run_kind {
    ($cx:ident, $c:ident, $oracle:ident, $show:expr, $lender:expr) => {{
        match $c.take {
            None => drive($cx, $lender, &$oracle, $show, &$c.ops, false),
            Some(m) => {
                $cx.label("take");
                let o = &$oracle[..m.min($oracle.len())];
                drive($cx, $lender.take(m), o, $show, &$c.ops, true)
            }
        }
    }};
}

impl Property for C20 {
    fn id(&self) -> &'static str {
        "C20"
    }
    fn plan(&self, tier: Tier) -> Vec<Segment> {
        vec![Segment::random("histories", tier.pick(480_000, 18_000_000), &[0], 48, 700), Segment::random("big-inputs", tier.pick(12_000, 600_000), &[1], 64, 3000), Segment::enumerated("huge-lines", tier.pick(5, 10), &[2])]
    }
    fn rule(&self) -> &'static str {
        "case = (lender kind in {LineLender over Cursor / BufReader<File> / small-capacity BufReader, ZstdLineLender over Cursor / File, GzipLineLender over Cursor / File, FromIntoIterator over Vec<u32> / Range / Vec<String>}, optional take(m) with m in {0,1,len-1,len,len+1,..}, input text with empty lines, CRLF/LF/mixed terminators, lone CR, multi-byte characters, lines that are not valid UTF-8 (an error item in every pass), a first line starting with a UTF-8 byte-order mark or '#', zstd frames declaring a 2^28..2^30-byte window (reference: the first pass of a fresh lender), zstd sources made of 1-3 concatenated frames and gzip sources of 1-3 members cut anywhere (for several gzip members the reference is the first pass of a fresh lender), lines longer than the BufReader, an enumerated segment with one line of 2^16..2^28 bytes (thorough: 2^30) of ASCII or 3-byte characters in every line lender, with/without final terminator, history of Next xj / Rewind with <=7 rewinds) decoded from bytes; oracle = the harness' own line splitter (resp. the item vector) truncated to m; every item of every pass compared, None exactly at the end, rewind() must be Ok. Non-trivial: a rewind after >=1 consumed item on a non-empty input; distinct = distinct hash of the decoded case."
    }
    fn run(&self, data: &[u8], cx: &mut Ctx) -> R {
        let (mode, rest) = data.split_first().unwrap_or((&0, &[]));
        let mut u = Unstructured::new(rest);
        let c = if *mode == 2 {
            let mut b = [0u8; 8];
            b[..rest.len().min(8)].copy_from_slice(&rest[..rest.len().min(8)]);
            cx.label("huge_line");
            huge_line_case(u64::from_le_bytes(b), cx.tier.pick(0, 1) == 1)
        } else {
            decode(&mut u, *mode == 1)
        };
        if *mode == 2 {
            cx.hash(&("huge-line", c.kind, c.text.len()));
        } else {
            cx.hash(&c);
        }
        cx.describe(|| format!("kind={} take={:?} bufcap={} ops={:?} items={:?} text({} bytes)={:?}", c.kind, c.take, c.bufcap, c.ops, &c.items[..c.items.len().min(8)], c.text.len(), trunc(&String::from_utf8_lossy(&c.text))));
        let lines = split_lines(&c.text);
        cx.label(&format!("kind:{}", c.kind));
        cx.label_if(c.text.len() > 8192, "input>8KiB");
        cx.label_if(c.text.len() > 131072, "input>128KiB");
        cx.label_if(!c.text.is_empty() && !c.text.ends_with(b"\n"), "no_final_newline");
        cx.label_if(c.text.windows(2).any(|w| w == b"\r\n"), "crlf");
        cx.label_if(c.text.starts_with(&[0xEF, 0xBB, 0xBF]), "bom_first");
        cx.label_if(lines.iter().any(|l| l == NOT_UTF8), "invalid_utf8_line");
        let show_str: &dyn Fn(&str) -> String = &|s: &str| s.to_string();
        match c.kind {
            0 => run_kind!(cx, c, lines, show_str, LineLender::new(Cursor::new(c.text.clone()))),
            1 => {
                let f = temp_with(&c.text);
                run_kind!(cx, c, lines, show_str, LineLender::from_file(f))
            }
            2 => run_kind!(cx, c, lines, show_str, LineLender::new(BufReader::with_capacity(c.bufcap, Cursor::new(c.text.clone())))),
            3 if c.bufcap == 7 && !c.text.is_empty() => {
                // a frame whose header declares a window of 2^28..2^30 bytes (`zstd --long`): whether the lender
                // decodes it or rejects it, every pass must do the same; the reference is the first pass of a
                // fresh lender, up to its first source error
                cx.label("zstd_long_window");
                let z = {
                    let mut e = zstd::stream::write::Encoder::new(Vec::new(), 1).expect("zstd encoder");
                    e.window_log(28 + (c.items.len() % 3) as u32).expect("window_log");
                    e.write_all(&c.text).unwrap();
                    e.finish().unwrap()
                };
                let mut probe = cx.must("ZstdLineLender::new", || ZstdLineLender::new(Cursor::new(z.clone())))?.map_err(|e| Fail::mismatch("new.err", format!("ZstdLineLender::new failed: {e}")))?;
                let mut lines = vec![];
                while let Some(r) = cx.must("next", || probe.next().map(|r| r.map(|s| s.to_string()).map_err(|e| e.kind())))? {
                    match r {
                        Ok(s) => lines.push(s),
                        Err(std::io::ErrorKind::InvalidData) if lines.len() < 100_000 => lines.push(NOT_UTF8.to_string()),
                        Err(_) => {
                            lines.push(TERMINAL_ERR.to_string());
                            break;
                        }
                    }
                }
                let l = cx.must("ZstdLineLender::new", || ZstdLineLender::new(Cursor::new(z)))?.map_err(|e| Fail::mismatch("new.err", format!("ZstdLineLender::new failed: {e}")))?;
                run_kind!(cx, c, lines, show_str, l)
            }
            3 => {
                // concatenated frames decode as one stream
                let ps = pieces(&c.text, &c);
                cx.label_if(ps.len() > 1, "multi_frame");
                let z: Vec<u8> = ps.iter().flat_map(|p| zstd_bytes(p)).collect();
                let l = cx.must("ZstdLineLender::new", || ZstdLineLender::new(Cursor::new(z)))?.map_err(|e| Fail::mismatch("new.err", format!("ZstdLineLender::new failed: {e}")))?;
                run_kind!(cx, c, lines, show_str, l)
            }
            4 => {
                let ps = pieces(&c.text, &c);
                cx.label_if(ps.len() > 1, "multi_frame");
                let z: Vec<u8> = ps.iter().flat_map(|p| zstd_bytes(p)).collect();
                let f = temp_with(&z);
                let l = cx.must("ZstdLineLender::from_file", || ZstdLineLender::new(f))?.map_err(|e| Fail::mismatch("new.err", format!("ZstdLineLender::new failed: {e}")))?;
                run_kind!(cx, c, lines, show_str, l)
            }
            5 => {
                let ps = pieces(&c.text, &c);
                let z: Vec<u8> = ps.iter().flat_map(|p| gzip_bytes(p)).collect();
                let lines = if ps.len() > 1 {
                    // several gzip members: whatever a first pass of a fresh lender yields is the reference
                    cx.label("multi_member");
                    let mut probe = cx.must("GzipLineLender::new", || GzipLineLender::new(Cursor::new(z.clone())))?.map_err(|e| Fail::mismatch("new.err", format!("GzipLineLender::new failed: {e}")))?;
                    let mut first_pass = vec![];
                    while let Some(r) = cx.must("next", || probe.next().map(|r| r.map(|s| s.to_string()).map_err(|e| e.to_string())))? {
                        match r {
                            Ok(s) => first_pass.push(s),
                            Err(_) => return Ok(()), // a source the lender itself rejects: nothing to replay
                        }
                    }
                    first_pass
                } else {
                    lines
                };
                let l = cx.must("GzipLineLender::new", || GzipLineLender::new(Cursor::new(z)))?.map_err(|e| Fail::mismatch("new.err", format!("GzipLineLender::new failed: {e}")))?;
                run_kind!(cx, c, lines, show_str, l)
            }
            6 => {
                let f = temp_with(&gzip_bytes(&c.text));
                let l = cx.must("GzipLineLender::new", || GzipLineLender::new(f))?.map_err(|e| Fail::mismatch("new.err", format!("GzipLineLender::new failed: {e}")))?;
                run_kind!(cx, c, lines, show_str, l)
            }
            7 => {
                let oracle: Vec<String> = c.items.iter().map(|x| x.to_string()).collect();
                let show: &dyn Fn(&u32) -> String = &|x: &u32| x.to_string();
                run_kind!(cx, c, oracle, show, FromIntoIterator::from(c.items.clone()))
            }
            8 => {
                let n = c.items.len();
                let oracle: Vec<String> = (0..n).map(|x| x.to_string()).collect();
                let show: &dyn Fn(&usize) -> String = &|x: &usize| x.to_string();
                run_kind!(cx, c, oracle, show, FromIntoIterator::from(0..n))
            }
            _ => {
                let show: &dyn Fn(&String) -> String = &|x: &String| x.clone();
                run_kind!(cx, c, lines, show, FromIntoIterator::from(lines.clone()))
            }
        }
    }
}
