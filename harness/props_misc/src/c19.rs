//! C19 — the GF(2) solvers return a satisfying assignment exactly when one exists.

use engine::*;
use sux::traits::Word;
use sux::utils::{Modulo2Equation, Modulo2System};

pub struct C19;

#[derive(Debug, Clone, Hash)]
struct Sys {
    wbits: u32,
    num_vars: usize,
    /// (strictly increasing, non-empty variable list; constant)
    eqs: Vec<(Vec<u32>, u128)>,
    /// Some(true/false): solvability known by construction (systems too large for the dense oracle and for
    /// the quadratic plain elimination: only the lazy solver runs on them)
    planted: Option<bool>,
    /// Some(false): plain elimination only; Some(true): lazy only; None: both (planted systems: lazy only)
    only_lazy: Option<bool>,
}

trait TW: Word + std::fmt::Debug {
    fn from128(v: u128) -> Self;
    fn to128(self) -> u128;
}
macro_rules! impl_tw { ($($t:ty),*) => {$( impl TW for $t { fn from128(v: u128) -> Self { v as $t } fn to128(self) -> u128 { self as u128 } } )*}; }
impl_tw!(u8, u16, u64, usize, u128);

/// Independent dense Gauss-Jordan elimination: solvable iff no row `0 = c != 0`.
fn oracle_solvable(s: &Sys) -> bool {
    let nw = s.num_vars.div_ceil(64).max(1);
    let mut rows: Vec<(Vec<u64>, u128)> = s
        .eqs
        .iter()
        .map(|(vars, c)| {
            let mut r = vec![0u64; nw];
            for v in vars {
                r[*v as usize / 64] ^= 1 << (*v % 64);
            }
            (r, *c)
        })
        .collect();
    let mut used = vec![false; rows.len()];
    for var in 0..s.num_vars {
        let (w, b) = (var / 64, var % 64);
        let Some(p) = (0..rows.len()).find(|&i| !used[i] && (rows[i].0[w] >> b) & 1 == 1) else { continue };
        used[p] = true;
        let (pr, pc) = rows[p].clone();
        for (i, row) in rows.iter_mut().enumerate() {
            if i != p && (row.0[w] >> b) & 1 == 1 {
                for k in 0..nw {
                    row.0[k] ^= pr[k];
                }
                row.1 ^= pc;
            }
        }
    }
    rows.iter().all(|(r, c)| r.iter().any(|x| *x != 0) || *c == 0)
}

fn eval(s: &Sys, sol: &[u128]) -> bool {
    s.eqs.iter().all(|(vars, c)| vars.iter().fold(0u128, |a, v| a ^ sol[*v as usize]) == *c)
}

fn mask(wbits: u32) -> u128 {
    if wbits >= 128 {
        u128::MAX
    } else {
        (1u128 << wbits) - 1
    }
}

fn var_list(u: &mut Unstructured, num_vars: usize, size: usize) -> Vec<u32> {
    let size = size.clamp(1, num_vars);
    let mut v: Vec<u32> = vec![];
    while v.len() < size {
        let x = u.int_in_range(0..=num_vars - 1).unwrap_or(0) as u32;
        // construction, not rejection: take the next free variable
        let mut y = x;
        while v.contains(&y) {
            y = (y + 1) % num_vars as u32;
        }
        v.push(y);
    }
    v.sort();
    v
}

fn decode(u: &mut Unstructured, wbits: u32) -> Sys {
    let m = mask(wbits);
    let shape = u.int_in_range(0u8..=7).unwrap_or(0);
    let num_vars = match u.int_in_range(0u8..=3).unwrap_or(0) {
        0 => u.int_in_range(1usize..=6).unwrap_or(1),
        1 => u.int_in_range(1usize..=70).unwrap_or(1),
        _ => u.int_in_range(1usize..=40).unwrap_or(1),
    };
    let num_eqs = match u.int_in_range(0u8..=3).unwrap_or(0) {
        0 => u.int_in_range(0usize..=4).unwrap_or(0),
        1 => num_vars + u.int_in_range(0usize..=3).unwrap_or(0),
        _ => u.int_in_range(0usize..=60).unwrap_or(0),
    };
    let planted: Vec<u128> = (0..num_vars).map(|_| value_class(u, wbits) & m).collect();
    let mut eqs: Vec<(Vec<u32>, u128)> = vec![];
    for _ in 0..num_eqs {
        let size = match shape {
            5 => 3, // 3-uniform, as in the builder
            6 => {
                // fuse-like: three variables in consecutive segments
                3
            }
            _ => match u.int_in_range(0u8..=9).unwrap_or(0) {
                0 => 1,
                1 => 2,
                2..=6 => 3,
                7 => 4,
                8 => 6,
                _ => u.int_in_range(1usize..=num_vars).unwrap_or(1),
            },
        };
        let vars = if shape == 6 && num_vars >= 6 {
            let seg = num_vars / 3;
            let mut v = vec![
                u.int_in_range(0..=seg - 1).unwrap_or(0) as u32,
                (seg + u.int_in_range(0..=seg - 1).unwrap_or(0)) as u32,
                (2 * seg + u.int_in_range(0..=seg - 1).unwrap_or(0)) as u32,
            ];
            v.sort();
            v
        } else {
            var_list(u, num_vars, size)
        };
        let c = match shape {
            // planted solution: always solvable
            0 | 1 | 5 | 6 => vars.iter().fold(0u128, |a, v| a ^ planted[*v as usize]),
            // arbitrary constants
            _ => value_class(u, wbits) & m,
        };
        eqs.push((vars, c));
    }
    match shape {
        1 => {
            // planted + one contradictory linear combination: never solvable
            if !eqs.is_empty() {
                let k = u.int_in_range(1usize..=eqs.len().min(4)).unwrap_or(1);
                let mut acc: Vec<u32> = vec![];
                let mut c = 0u128;
                for _ in 0..k {
                    let i = u.int_in_range(0..=eqs.len() - 1).unwrap_or(0);
                    for v in &eqs[i].0 {
                        if let Some(p) = acc.iter().position(|x| x == v) {
                            acc.remove(p);
                        } else {
                            acc.push(*v);
                        }
                    }
                    c ^= eqs[i].1;
                }
                acc.sort();
                if !acc.is_empty() {
                    let bit = 1u128 << u.int_in_range(0..=wbits - 1).unwrap_or(0);
                    let at = u.int_in_range(0..=eqs.len()).unwrap_or(0);
                    eqs.insert(at, (acc, c ^ bit));
                }
            }
        }
        3 => {
            // repeated rows (same or different constants)
            let n = eqs.len();
            for i in 0..n.min(6) {
                if u.arbitrary::<bool>().unwrap_or(false) {
                    let mut e = eqs[i].clone();
                    if u.int_in_range(0u8..=3).unwrap_or(0) == 0 {
                        e.1 ^= 1;
                    }
                    let at = u.int_in_range(0..=eqs.len()).unwrap_or(0);
                    eqs.insert(at, e);
                }
            }
        }
        4 => {
            // rank-deficient: append sums of pairs (consistent)
            let n = eqs.len();
            for _ in 0..n.min(5) {
                let (i, j) = (u.int_in_range(0..=n - 1).unwrap_or(0), u.int_in_range(0..=n - 1).unwrap_or(0));
                let mut acc = eqs[i].0.clone();
                for v in &eqs[j].0 {
                    if let Some(p) = acc.iter().position(|x| x == v) {
                        acc.remove(p);
                    } else {
                        acc.push(*v);
                    }
                }
                acc.sort();
                if !acc.is_empty() {
                    eqs.push((acc, eqs[i].1 ^ eqs[j].1));
                }
            }
        }
        _ => {}
    }
    Sys { wbits, num_vars, eqs, planted: None, only_lazy: None }
}

/// Exhaustive sub-domain: <= 3 variables, <= 4 equations, 1-bit constants.
fn enumerated(j: u64) -> Sys {
    // 14 equation shapes: 7 non-empty subsets of {0,1,2} x c in {0,1}
    let mut j = j;
    let mut k = 0usize;
    let mut block = 1u64;
    while j >= block {
        j -= block;
        block *= 14;
        k += 1;
    }
    let mut eqs = vec![];
    for _ in 0..k {
        let e = (j % 14) as u32;
        j /= 14;
        let subset = e / 2 + 1;
        let vars: Vec<u32> = (0..3).filter(|b| (subset >> b) & 1 == 1).collect();
        eqs.push((vars, (e % 2) as u128));
    }
    Sys { wbits: 64, num_vars: 3, eqs, planted: None, only_lazy: None }
}

/// Systems with very long rows (a global parity row and friends) around the
/// sizes where a narrow per-equation counter would wrap.
fn long_rows(j: u64) -> Sys {
    let len = [255usize, 256, 257, 65_535, 65_536, 65_537, 65_538, 131_072, 511, 70_000][j as usize % 10];
    let k = j / 10;
    let num_vars = len + [0usize, 1, 5][(k % 3) as usize];
    let sol = |i: u32| -> u128 { ((i as u64 + 1).wrapping_mul(0x9E37_79B9_7F4A_7C15) >> 7) as u128 };
    let mut rows: Vec<Vec<u32>> = vec![(0..len as u32).collect()];
    match (k / 3) % 4 {
        0 => {
            rows.push(vec![6]);
            rows.push(vec![0]);
        }
        1 => {
            // a second long row: everything but a few variables
            rows.push((0..len as u32).filter(|v| *v != 3 && *v != 100 && *v != len as u32 - 1).collect());
            rows.push(vec![3, 100]);
            rows.push(vec![1, 2, 3]);
        }
        2 => {
            rows.push(vec![0, len as u32 - 1]);
            rows.push(vec![len as u32 - 1]);
            rows.push(vec![5, 6, 7]);
            rows.push(vec![6, 7, 8]);
        }
        _ => {
            // two halves and the whole
            rows.push((0..len as u32 / 2).collect());
            rows.push((len as u32 / 2..len as u32).collect());
            rows.push(vec![0, 1, 2]);
        }
    }
    if k % 2 == 1 {
        rows.reverse();
    }
    let mut eqs: Vec<(Vec<u32>, u128)> = rows.into_iter().map(|vars| { let c = vars.iter().fold(0u128, |a, v| a ^ sol(*v)); (vars, c) }).collect();
    if (k / 12) % 3 == 2 {
        // contradiction: the long row again with another constant
        let (v, c) = eqs.iter().max_by_key(|e| e.0.len()).unwrap().clone();
        eqs.push((v, c ^ 1));
    }
    Sys { wbits: 64, num_vars, eqs, planted: None, only_lazy: None }
}

/// More than 2^16 sparse equations with a few variables that occur in about
/// 2^16 of them (weights 65535..65538 and beyond, several different heavy
/// weights at once): the regime of the per-variable weight counters.
fn many_equations(j: u64) -> Sys {
    let m = 65_536 + [2usize, 1, 40, 3000][j as usize % 4];
    let num_vars = [70_000usize, 131_072, 66_000][(j / 4) as usize % 3];
    let sol = |i: u32| -> u128 { ((i as u64 + 3).wrapping_mul(0xD6E8_FEB8_6659_FD93) >> 5) as u128 };
    // heavy variables and the number of equations each occurs in
    let heavy: Vec<(u32, usize)> = match (j / 12) % 4 {
        0 => vec![(5, 65_536), (9, 65_537)],
        1 => vec![(0, 65_537), (7, 65_535), (11, 65_538)],
        2 => vec![(3, m), (4, m - 1)],
        _ => vec![(6, 65_536), (8, 65_536), (2, 65_540.min(m))],
    };
    let mut x = 0x9E37_79B9_7F4A_7C15u64 ^ j;
    let mut next = || {
        x ^= x << 13;
        x ^= x >> 7;
        x ^= x << 17;
        x
    };
    let mut eqs: Vec<(Vec<u32>, u128)> = Vec::with_capacity(m + 1);
    for i in 0..m {
        let mut vars: Vec<u32> = heavy.iter().filter(|(_, w)| i < *w).map(|(v, _)| *v).collect();
        // two or three light variables; variable 0 shows up now and then
        let k = 2 + (next() % 2) as usize;
        for _ in 0..k {
            let v = if next() % 64 == 0 { 0 } else { 16 + (next() % (num_vars as u64 - 16)) as u32 };
            vars.push(v);
        }
        vars.sort_unstable();
        vars.dedup();
        let c = vars.iter().fold(0u128, |a, v| a ^ sol(*v));
        eqs.push((vars, c));
    }
    let planted = (j / 48) % 3 != 2;
    if !planted {
        let (v, c) = eqs[m / 2].clone();
        eqs.push((v, c ^ 4));
    }
    Sys { wbits: 64, num_vars, eqs, planted: Some(planted), only_lazy: Some(true) }
}

/// Variable indices more than 2^31 apart (u32 variables: up to 2^32 - 1 are
/// legal). Only the plain elimination: its sole per-variable memory is the
/// zero-initialised solution vector of u8 (untouched pages), while the lazy
/// solver keeps several words per variable.
fn huge_indices(j: u64) -> Sys {
    let b: u32 = 1 << 31;
    let num_vars = [(1usize << 31) + 16, (1usize << 32) - 1, 3usize << 30, (1usize << 31) + 1_000_000][j as usize % 4];
    let top = num_vars as u64 - 1;
    let sol = |v: u32| -> u128 { ((v as u64 + 11).wrapping_mul(0x9E37_79B9_7F4A_7C15) >> 9) as u128 & 0xFF };
    let hi = |d: u64| -> u32 { (b as u64 + d).min(top) as u32 };
    let mut rows: Vec<Vec<u32>> = match (j / 4) % 4 {
        0 => vec![vec![0, 5, hi(7)], vec![0, hi(6)], vec![5, hi(7), hi(9)], vec![1, hi(1)]],
        1 => vec![vec![0, hi(0)], vec![0, 1, hi(0)], vec![1, 2, top as u32], vec![2, b - 1, hi(0)], vec![3, top as u32]],
        2 => vec![vec![7, b - 1], vec![7, b], vec![b - 1, b, hi(1)], vec![0, 7, top as u32], vec![0, hi(1)]],
        _ => vec![vec![0, 1, 2], vec![0, hi(3), hi(5)], vec![1, hi(3)], vec![2, hi(5), top as u32], vec![0, 1, top as u32], vec![hi(3), top as u32]],
    };
    for r in rows.iter_mut() {
        r.sort_unstable();
        r.dedup();
    }
    if j % 2 == 1 {
        rows.reverse();
    }
    let mut eqs: Vec<(Vec<u32>, u128)> = rows.into_iter().map(|vars| { let c = vars.iter().fold(0u128, |a, v| a ^ sol(*v)); (vars, c) }).collect();
    let planted = (j / 16) % 3 != 2;
    if !planted {
        // the sum of the first two rows with another constant
        let (a, bq) = (eqs[0].clone(), eqs[1].clone());
        let mut v: Vec<u32> = a.0.iter().filter(|x| !bq.0.contains(x)).chain(bq.0.iter().filter(|x| !a.0.contains(x))).copied().collect();
        v.sort_unstable();
        if !v.is_empty() {
            eqs.push((v, a.1 ^ bq.1 ^ 1));
        } else {
            eqs.push((eqs[2].0.clone(), eqs[2].1 ^ 1));
        }
    }
    Sys { wbits: 8, num_vars, eqs, planted: Some(planted), only_lazy: Some(false) }
}

pub const ENUM_COUNT: u64 = 1 + 14 + 196 + 2744 + 38416;

fn run_w<W: TW>(cx: &mut Ctx, s: &Sys) -> R {
    let build = || {
        let mut sys = Modulo2System::<W>::new(s.num_vars);
        for (vars, c) in &s.eqs {
            sys.push(unsafe { Modulo2Equation::from_parts(vars.clone(), W::from128(*c)) });
        }
        sys
    };
    let solvable = match s.planted {
        Some(p) => p,
        None => oracle_solvable(s),
    };
    cx.label(if solvable { "solvable" } else { "unsolvable" });
    let orig = cx.must("build", build)?;
    for lazy in [false, true] {
        if s.only_lazy.is_some_and(|l| l != lazy) {
            continue; // the plain elimination is quadratic in the number of equations; the lazy one needs memory per variable
        }
        let name = if lazy { "lazy_gaussian_elimination" } else { "gaussian_elimination" };
        let mut sys = cx.must("clone", || orig.clone())?;
        let r = cx.must(name, || if lazy { sys.lazy_gaussian_elimination() } else { sys.gaussian_elimination() })?;
        match r {
            Ok(sol) => {
                cx.check(solvable, name, || format!("{name} returned Ok on an unsolvable system"))?;
                cx.check_eq(sol.len(), s.num_vars, name, || format!("{name}: solution length"))?;
                // the harness' own evaluator, so a broken check() cannot vouch for a broken solver
                let bad = s.eqs.iter().position(|(vars, c)| vars.iter().fold(0u128, |a, v| a ^ sol[*v as usize].to128()) != *c);
                if let Some(i) = bad {
                    let vals: Vec<(u32, u128)> = s.eqs[i].0.iter().take(8).map(|v| (*v, sol[*v as usize].to128())).collect();
                    return Err(Fail::mismatch(name, format!("{name}: {name} returned an assignment violating equation {i} ({} variables, constant {:#x}); values of its first variables: {vals:x?}", s.eqs[i].0.len(), s.eqs[i].1)));
                }
                // and check() of the pristine system
                let ok = cx.must("check", || orig.check(&sol))?;
                cx.check(ok, "check", || format!("check() rejects a satisfying assignment returned by {name}"))?;
            }
            Err(_) => {
                cx.check(!solvable, name, || format!("{name} returned an error on a solvable system"))?;
            }
        }
    }
    // several solver calls on the SAME object: the solvers rewrite the rows in place but only by row operations,
    // so whatever a later call returns as Ok must still satisfy the original equations (an error is tolerated
    // there: earlier calls may leave identity rows, which the plain elimination refuses)
    if s.num_vars <= 200 && s.eqs.len() <= 200 && s.planted.is_none() {
        let mut sys = cx.must("clone", || orig.clone())?;
        let mut code = s.eqs.iter().fold(s.num_vars as u64 ^ 0x5bd1_e995, |a, (v, c)| a.rotate_left(5) ^ v.len() as u64 ^ *c as u64);
        let mut script = vec![];
        for step in 0..3 {
            let lazy = (code >> step) & 1 == 1;
            script.push(if lazy { "lazy" } else { "plain" });
            // (an error or a panic is tolerated here: identity rows left by an earlier call make the plain
            // elimination refuse or index an empty row, see DESIGN.md section 7)
            let r = cx.any(|| if lazy { sys.lazy_gaussian_elimination() } else { sys.gaussian_elimination() });
            if let Some(Ok(sol)) = r {
                if sol.len() != s.num_vars {
                    return Err(Fail::mismatch("same_object", format!("same_object: after the calls {script:?} on one object the solution has {} entries for {} variables", sol.len(), s.num_vars)));
                }
                let bad = s.eqs.iter().position(|(vars, c)| vars.iter().fold(0u128, |a, v| a ^ sol[*v as usize].to128()) != *c);
                if let Some(i) = bad {
                    return Err(Fail::mismatch("same_object", format!("same_object: the calls {script:?} on one system object: the last one returned Ok with an assignment violating equation {i} of the original system{}", if solvable { "" } else { " (which is unsolvable)" })));
                }
            }
            code = code.rotate_right(7);
        }
        cx.label("same_object_scripts");
    }
    if s.num_vars > 1 << 24 {
        return Ok(()); // no full assignments for systems with billions of variables
    }
    // check() itself against the evaluator on a few assignments
    let mut x = 0x1234_5678_9abc_def0u128 ^ (s.eqs.len() as u128);
    for _ in 0..3 {
        let a: Vec<u128> = (0..s.num_vars)
            .map(|i| {
                x = x.wrapping_mul(0x2545F4914F6CDD1D).rotate_left(17) ^ i as u128;
                x & mask(s.wbits)
            })
            .collect();
        let aw: Vec<W> = a.iter().map(|v| W::from128(*v)).collect();
        let got = cx.must("check", || orig.check(&aw))?;
        cx.check_eq(got, eval(s, &a), "check", || "check() disagrees with direct evaluation".into())?;
    }
    Ok(())
}

impl Property for C19 {
    fn id(&self) -> &'static str {
        "C19"
    }
    fn plan(&self, tier: Tier) -> Vec<Segment> {
        vec![
            Segment::enumerated("exhaustive<=3vars<=4eqs", ENUM_COUNT, &[0xF0]),
            Segment::random("u8", tier.pick(320_000, 12_000_000), &[0], 8, 700),
            Segment::random("u64", tier.pick(320_000, 12_000_000), &[1], 8, 700),
            Segment::random("usize", tier.pick(320_000, 12_000_000), &[2], 8, 700),
            Segment::random("u128", tier.pick(80_000, 4_000_000), &[3], 8, 700),
            Segment::random("u16", tier.pick(80_000, 4_000_000), &[4], 8, 700),
            // rows with 2^8 +-1, 2^16 +-1 and more variables (counters of idle variables per equation)
            Segment::enumerated("long-rows", tier.pick(24, 96), &[0xF1]),
            // more than 2^16 equations, variables occurring in about 2^16 of them
            Segment::enumerated("many-equations", tier.pick(8, 96), &[0xF2]),
            // variable indices more than 2^31 apart
            Segment::enumerated("huge-variable-indices", tier.pick(16, 48), &[0xF3]),
        ]
    }
    fn rule(&self) -> &'static str {
        "case = system over W in {u8,u16,u64,usize,u128} with <=70 variables and <=~70 equations whose variable lists are non-empty, strictly increasing and below num_vars (sizes 1..6, mostly 3), shaped as planted-solution, planted+contradictory combination, arbitrary constants, repeated rows, rank-deficient, 3-uniform and fuse-like (segment) systems; plus the complete enumeration of all systems with 3 variables, <=4 equations and 1-bit constants. plus an enumerated segment of planted/contradictory systems with rows of 255..257, 511, 65535..65538, 70000 and 131072 variables (global parity rows, halves, near-complements) next to short rows. plus an enumerated segment of 65537..68536 sparse equations over 66000..131072 variables in which 2-3 variables occur in 65535..65540 (or all) equations, solvable by construction or with one contradicting copy (lazy solver only: the plain elimination is quadratic). plus planted/contradictory systems over 2^31+16 .. 2^32-1 variables of u8 whose rows mix indices below and above 2^31 (plain elimination only). After the per-call checks, three further solver calls (a generated plain/lazy script) run on ONE system object: any Ok must still satisfy the original equations. Oracle = independent dense Gauss-Jordan elimination in the harness; both solvers run on clones: Ok iff solvable, solution length, harness evaluator and check(). Non-trivial: at least 2 equations sharing a variable; distinct = distinct hash of the decoded system."
    }
    fn run(&self, data: &[u8], cx: &mut Ctx) -> R {
        let (mode, rest) = data.split_first().unwrap_or((&0, &[]));
        let s = if *mode == 0xF0 {
            let mut b = [0u8; 8];
            b[..rest.len().min(8)].copy_from_slice(&rest[..rest.len().min(8)]);
            cx.label("enumerated");
            enumerated(u64::from_le_bytes(b) % ENUM_COUNT)
        } else if *mode == 0xF3 {
            let mut b = [0u8; 8];
            b[..rest.len().min(8)].copy_from_slice(&rest[..rest.len().min(8)]);
            cx.label("huge_variable_indices");
            huge_indices(u64::from_le_bytes(b))
        } else if *mode == 0xF2 {
            let mut b = [0u8; 8];
            b[..rest.len().min(8)].copy_from_slice(&rest[..rest.len().min(8)]);
            cx.label("many_equations");
            many_equations(u64::from_le_bytes(b))
        } else if *mode == 0xF1 {
            let mut b = [0u8; 8];
            b[..rest.len().min(8)].copy_from_slice(&rest[..rest.len().min(8)]);
            cx.label("long_rows");
            long_rows(u64::from_le_bytes(b))
        } else {
            let wbits = [8u32, 64, 64, 128, 16][*mode as usize % 5];
            let mut u = Unstructured::new(rest);
            decode(&mut u, wbits)
        };
        cx.hash(&s);
        cx.describe(|| if s.num_vars > 200 && s.eqs.len() > 1000 { format!("Sys {{ wbits: {}, num_vars: {}, {} sparse equations, planted: {:?} }}", s.wbits, s.num_vars, s.eqs.len(), s.planted) } else if s.num_vars > 200 { format!("Sys {{ wbits: {}, num_vars: {}, eqs (lengths, constant): {:?} }}", s.wbits, s.num_vars, s.eqs.iter().map(|(v, c)| (v.len(), v.first().copied(), v.last().copied(), *c)).collect::<Vec<_>>()) } else { format!("{:?}", s) });
        let mut shares = false;
        let mut seen = std::collections::HashSet::new();
        for (vars, _) in &s.eqs {
            for v in vars {
                shares |= !seen.insert(*v);
            }
        }
        cx.nontrivial_if(s.eqs.len() >= 2 && shares);
        cx.label_if(seen.len() < s.num_vars, "unused_var");
        cx.label_if(s.eqs.len() > s.num_vars, "overdetermined");
        // the word type follows the width the constants were generated for (any mode byte, as a fuzzer may send)
        match (*mode, s.wbits) {
            (0xF0 | 0xF1 | 0xF2, _) => run_w::<u64>(cx, &s),
            (_, 8) => run_w::<u8>(cx, &s),
            (_, 16) => run_w::<u16>(cx, &s),
            (_, 128) => run_w::<u128>(cx, &s),
            (m, _) if m % 5 == 2 => run_w::<usize>(cx, &s),
            _ => run_w::<u64>(cx, &s),
        }
    }
}
