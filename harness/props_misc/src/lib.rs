use engine::Property;
pub mod c19;
pub mod c20;

pub fn properties() -> Vec<Box<dyn Property>> {
    vec![Box::new(c19::C19), Box::new(c20::C20)]
}
