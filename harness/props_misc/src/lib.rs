use engine::Property;
pub mod c12;
pub mod c15;
pub mod c19;
pub mod c20;

pub fn properties() -> Vec<Box<dyn Property>> {
    vec![Box::new(c12::C12), Box::new(c15::C15), Box::new(c19::C19), Box::new(c20::C20)]
}
