//! C15 — serialized structures answer identically after any way of loading them back.

use engine::*;
use epserde::deser::Flags;
use epserde::prelude::*;
use props_dict::ef::{build_plain, decode_seq};
use props_func::fb::*;
use props_ranksel::bv::{build as build_bv, decode_desc};
use std::sync::{Arc, Mutex};
use sux::bits::{BitFieldVec, BitVec};
use sux::dict::elias_fano::{EfDict, EfSeq, EfSeqDict, EliasFano};
use sux::dict::{RearCodedList, RearCodedListBuilder, VFilter};
use sux::func::shard_edge::*;
use sux::func::VFunc;
use sux::rank_sel::*;
use sux::traits::bit_field_slice::{BitFieldSlice, BitFieldSliceCore};
use sux::traits::*;

pub struct C15;

fn compare(_cx: &mut Ctx, name: &str, path: &str, got: Vec<u64>, want: &[u64]) -> R {
    if got != want {
        let i = (0..got.len().min(want.len())).find(|i| got[*i] != want[*i]);
        return Err(Fail::mismatch(path, format!("{path}: {name}: answers after loading differ from the original instance ({} vs {} answers; first difference at observation {:?}: got {:?}, expected {:?})", got.len(), want.len(), i, i.map(|i| got[i]), i.map(|i| want[i]))));
    }
    Ok(())
}

/// Serializes `$val` of type `$ty` and checks that `$obs` (an expression over
/// `$x`, a reference to the value) gives the same answers on the original
/// and after each loading path.
macro_rules! roundtrip {
    ($cx:ident, $name:expr, $ty:ty, $val:expr, |$x:ident| $obs:expr) => {
        roundtrip!($cx, $name, $ty, $val, |$x| $obs, full_only |$x| Vec::<u64>::new())
    };
    ($cx:ident, $name:expr, $ty:ty, $val:expr, |$x:ident| $obs:expr, full_only |$y:ident| $obs2:expr) => {{
        let name: &str = $name;
        $cx.label(name);
        let value: $ty = $val;
        let want: Vec<u64> = {
            let $x = &value;
            $cx.must("observe original", || $obs)?
        };
        let want2: Vec<u64> = {
            #[allow(unused_variables)]
            let $y = &value;
            $cx.must("observe original", || $obs2)?
        };
        let mut cur = <AlignedCursor>::new();
        let n = match $cx.must("serialize", || value.serialize(&mut cur).map_err(|e| e.to_string()))? {
            Ok(n) => n,
            Err(e) => return Err(Fail::mismatch("serialize", format!("serialize: {name}: {e}"))),
        };
        // serialize_with_schema writes the same bytes
        let mut cur2 = <AlignedCursor>::new();
        match $cx.must("serialize_with_schema", || value.serialize_with_schema(&mut cur2).map(|_| ()).map_err(|e| e.to_string()))? {
            Ok(()) => {}
            Err(e) => return Err(Fail::mismatch("serialize_with_schema", format!("serialize_with_schema: {name}: {e}"))),
        }
        $cx.check(cur.as_bytes()[..n] == cur2.as_bytes()[..n], "schema.bytes", || format!("{name}: serialize and serialize_with_schema wrote different bytes"))?;
        // (i) full deserialization
        cur.set_position(0);
        {
            let full = match $cx.must("deserialize_full", || <$ty>::deserialize_full(&mut cur).map_err(|e| e.to_string()))? {
                Ok(f) => f,
                Err(e) => return Err(Fail::mismatch("deserialize_full", format!("deserialize_full: {name}: {e}"))),
            };
            let $x = &full;
            let got = $cx.must("observe deserialize_full", || $obs)?;
            compare($cx, name, "deserialize_full", got, &want)?;
            #[allow(unused_variables)]
            let $y = &full;
            let got = $cx.must("observe deserialize_full", || $obs2)?;
            compare($cx, name, "deserialize_full", got, &want2)?;
        }
        // (ii) zero-copy deserialization from the byte buffer
        {
            let bytes = &cur.as_bytes()[..n];
            let eps = match $cx.must("deserialize_eps", || <$ty>::deserialize_eps(bytes).map_err(|e| e.to_string()))? {
                Ok(f) => f,
                Err(e) => return Err(Fail::mismatch("deserialize_eps", format!("deserialize_eps: {name}: {e}"))),
            };
            let $x = &eps;
            let got = $cx.must("observe deserialize_eps", || $obs)?;
            compare($cx, name, "deserialize_eps", got, &want)?;
        }
        // (iii) through a file: mmap, load_mem, load_mmap, load_full
        {
            let dir = tempfile::tempdir().map_err(|e| Fail::mismatch("tempdir", e.to_string()))?;
            let path = dir.path().join("x.bin");
            match $cx.must("store", || value.store(&path).map_err(|e| e.to_string()))? {
                Ok(()) => {}
                Err(e) => return Err(Fail::mismatch("store", format!("store: {name}: {e}"))),
            }
            {
                let m = match $cx.must("mmap", || <$ty>::mmap(&path, Flags::empty()).map_err(|e| e.to_string()))? {
                    Ok(m) => m,
                    Err(e) => return Err(Fail::mismatch("mmap", format!("mmap: {name}: {e}"))),
                };
                let $x = &*m;
                let got = $cx.must("observe mmap", || $obs)?;
                compare($cx, name, "mmap", got, &want)?;
            }
            {
                let m = match $cx.must("load_mem", || <$ty>::load_mem(&path).map_err(|e| e.to_string()))? {
                    Ok(m) => m,
                    Err(e) => return Err(Fail::mismatch("load_mem", format!("load_mem: {name}: {e}"))),
                };
                let $x = &*m;
                let got = $cx.must("observe load_mem", || $obs)?;
                compare($cx, name, "load_mem", got, &want)?;
            }
            {
                let m = match $cx.must("load_mmap", || <$ty>::load_mmap(&path, Flags::empty()).map_err(|e| e.to_string()))? {
                    Ok(m) => m,
                    Err(e) => return Err(Fail::mismatch("load_mmap", format!("load_mmap: {name}: {e}"))),
                };
                let $x = &*m;
                let got = $cx.must("observe load_mmap", || $obs)?;
                compare($cx, name, "load_mmap", got, &want)?;
            }
            {
                let full = match $cx.must("load_full", || <$ty>::load_full(&path).map_err(|e| e.to_string()))? {
                    Ok(m) => m,
                    Err(e) => return Err(Fail::mismatch("load_full", format!("load_full: {name}: {e}"))),
                };
                let $x = &full;
                let got = $cx.must("observe load_full", || $obs)?;
                compare($cx, name, "load_full", got, &want)?;
                #[allow(unused_variables)]
            let $y = &full;
                let got = $cx.must("observe load_full", || $obs2)?;
                compare($cx, name, "load_full", got, &want2)?;
            }
        }
    }};
}

// ---- generic observation functions (same code for the original and for every loaded form)

fn positions(len: usize, seed: u64) -> Vec<usize> {
    let mut v: Vec<usize> = if len <= 300 { (0..=len + 2).collect() } else { (0..=len).step_by(len / 150).collect() };
    let mut x = seed | 1;
    for _ in 0..60 {
        x ^= x << 13;
        x ^= x >> 7;
        x ^= x << 17;
        v.push(x as usize % (len + 70));
    }
    v.extend([len.saturating_sub(1), len, len + 1, len + 64, usize::MAX]);
    v
}

fn obs_bits<B: AsRef<[usize]>>(b: &BitVec<B>, seed: u64) -> Vec<u64> {
    let len = b.len();
    let mut o = vec![len as u64, b.count_ones() as u64, b.count_zeros() as u64];
    for p in positions(len, seed) {
        if p < len {
            o.push(b.get(p) as u64);
        }
    }
    o.extend(b.iter_ones().take(500).map(|x| x as u64));
    o.extend(b.iter_zeros().take(200).map(|x| x as u64));
    o
}

fn obs_bfv<W: props_bits::words::TW, B: AsRef<[W]>>(v: &BitFieldVec<W, B>) -> Vec<u64> {
    let mut o = vec![BitFieldSliceCore::len(v) as u64, BitFieldSliceCore::bit_width(v) as u64];
    for i in 0..BitFieldSliceCore::len(v) {
        let x = v.get(i).to128();
        o.push(x as u64);
        o.push((x >> 64) as u64);
    }
    o.extend(v.iter().map(|x| x.to128() as u64));
    o
}

fn obs_rank<T: Rank + RankZero + NumBits + BitLength>(t: &T, seed: u64) -> Vec<u64> {
    let len = BitLength::len(t);
    let mut o = vec![len as u64, t.num_ones() as u64, t.num_zeros() as u64];
    for p in positions(len, seed) {
        o.push(t.rank(p) as u64);
        o.push(t.rank_zero(p) as u64);
    }
    o
}

fn obs_select<T: Select + NumBits>(t: &T, seed: u64) -> Vec<u64> {
    let n = t.num_ones();
    let mut o = vec![n as u64];
    for r in positions(n, seed) {
        o.push(t.select(r).map(|x| x as u64 + 1).unwrap_or(0));
    }
    o
}

fn obs_select_zero<T: SelectZero + NumBits>(t: &T, seed: u64) -> Vec<u64> {
    let n = t.num_zeros();
    let mut o = vec![n as u64];
    for r in positions(n, seed) {
        o.push(t.select_zero(r).map(|x| x as u64 + 1).unwrap_or(0));
    }
    o
}

fn obs_index<T: std::ops::Index<usize, Output = bool> + BitLength>(t: &T, seed: u64) -> Vec<u64> {
    let len = BitLength::len(t);
    positions(len, seed).into_iter().filter(|p| *p < len).map(|p| t[p] as u64).collect()
}

fn obs_seq<H: AsRef<[usize]> + SelectUnchecked, L: BitFieldSlice<usize>>(ef: &EliasFano<H, L>, seed: u64) -> Vec<u64>
where
    for<'b> &'b L: IntoUncheckedIterator<Item = usize>,
{
    let n = ef.len();
    let mut o = vec![n as u64];
    for i in positions(n, seed) {
        if i < n {
            o.push(ef.get(i) as u64);
        }
    }
    o.extend(ef.iter().take(400).map(|x| x as u64));
    o.extend(ef.iter_from(n / 2).take(50).map(|x| x as u64));
    o
}

fn obs_dict<H: AsRef<[usize]> + SelectUnchecked + SelectZeroUnchecked, L: BitFieldSlice<usize>>(ef: &EliasFano<H, L>, queries: &[usize]) -> Vec<u64>
where
    for<'b> &'b L: IntoUncheckedIterator<Item = usize>,
    for<'b> &'b L: IntoReverseUncheckedIterator<Item = usize>,
{
    let enc = |x: Option<(usize, usize)>| x.map(|(i, v)| (i as u64) << 1 ^ (v as u64).rotate_left(17) ^ 1).unwrap_or(0);
    let mut o = vec![];
    for q in queries {
        o.push(ef.index_of(*q).map(|x| x as u64 + 1).unwrap_or(0));
        o.push(enc(ef.succ(*q)));
        o.push(enc(ef.succ_strict(*q)));
        o.push(enc(ef.pred(*q)));
        o.push(enc(ef.pred_strict(*q)));
    }
    o
}

fn obs_index_of<H: AsRef<[usize]> + SelectZeroUnchecked, L: BitFieldSlice<usize>>(ef: &EliasFano<H, L>, queries: &[usize]) -> Vec<u64>
where
    for<'b> &'b L: IntoUncheckedIterator<Item = usize>,
{
    queries.iter().map(|q| ef.index_of(*q).map(|x| x as u64 + 1).unwrap_or(0) + ef.contains(*q) as u64 * (1 << 40)).collect()
}

fn obs_rcl<D: AsRef<[u8]>, P: AsRef<[usize]>>(l: &RearCodedList<D, P>, probes: &[String]) -> Vec<u64> {
    use std::hash::{Hash, Hasher};
    let h = |s: &str| {
        let mut d = std::collections::hash_map::DefaultHasher::new();
        s.hash(&mut d);
        d.finish()
    };
    let n = l.len();
    let mut o = vec![n as u64];
    for i in 0..n {
        o.push(h(&l.get(i)));
    }
    o.extend(l.iter().map(|s| h(&s)));
    o.extend(l.iter_from(n / 2).map(|s| h(&s)));
    for p in probes {
        o.push(l.index_of(p.as_str()).map(|x| x as u64 + 1).unwrap_or(0));
        o.push(l.contains(p.as_str()) as u64);
    }
    o
}

fn obs_func<T: ?Sized + sux::utils::ToSig<S>, W: props_func::c07::TWord, D: BitFieldSlice<W>, S: sux::utils::Sig, E: ShardEdge<S, 3>>(f: &VFunc<T, W, D, S, E>, keys: &[&T]) -> Vec<u64> {
    let mut o = vec![f.len() as u64, f.is_empty() as u64];
    for k in keys {
        o.push(f.get(*k).to64());
    }
    o
}

fn obs_filter<T: ?Sized + sux::utils::ToSig<S>, W: props_func::c07::TWord, D: BitFieldSlice<W>, S: sux::utils::Sig, E: ShardEdge<S, 3>>(f: &VFilter<W, VFunc<T, W, D, S, E>>, keys: &[&T]) -> Vec<u64>
where
    u64: common_traits::CastableInto<W>,
{
    let mut o = vec![f.len() as u64, f.hash_bits() as u64];
    for k in keys {
        o.push(f.contains(*k) as u64);
        o.push(f.get(*k).to64());
    }
    o
}

// ---- cases

type A = AddNumBits<BitVec>;

fn bits_and_ranksel(cx: &mut Ctx, u: &mut Unstructured) -> R {
    let which = u.int_in_range(0u8..=23).unwrap_or(0);
    let desc = decode_desc(u, 3000, false);
    let seed: u64 = u.arbitrary().unwrap_or(3);
    let m = u.int_in_range(0usize..=5).unwrap_or(3);
    cx.hash(&("ranksel", which, &desc, seed, m));
    cx.describe(|| format!("structure #{which} over {desc:?} (seed {seed}, m {m})"));
    let (bv, model) = build_bv(cx, &desc)?;
    cx.nontrivial_if(model.len > 0 && which >= 2);
    cx.label_if(model.len == 0, "empty");
    match which {
        0 => roundtrip!(cx, "BitVec", BitVec, bv, |x| obs_bits(x, seed)),
        1 => roundtrip!(cx, "BitVec<Box<[usize]>>", BitVec<Box<[usize]>>, bv.into(), |x| obs_bits(x, seed)),
        2 => roundtrip!(cx, "AddNumBits<BitVec>", A, A::from(bv), |x| [vec![x.num_ones() as u64, x.count_ones() as u64, BitLength::len(x) as u64], obs_index(x, seed)].concat()),
        3 => roundtrip!(cx, "Rank9", Rank9, Rank9::new(bv), |x| [obs_rank(x, seed), obs_index(x, seed)].concat()),
        4 => roundtrip!(cx, "RankSmall<2,9>", RankSmall<2, 9>, RankSmall::<2, 9>::new(bv), |x| obs_rank(x, seed)),
        5 => roundtrip!(cx, "RankSmall<1,9>", RankSmall<1, 9>, RankSmall::<1, 9>::new(bv), |x| obs_rank(x, seed)),
        6 => roundtrip!(cx, "RankSmall<1,10>", RankSmall<1, 10>, RankSmall::<1, 10>::new(bv), |x| obs_rank(x, seed)),
        7 => roundtrip!(cx, "RankSmall<1,11>", RankSmall<1, 11>, RankSmall::<1, 11>::new(bv), |x| obs_rank(x, seed)),
        8 => roundtrip!(cx, "RankSmall<3,13>", RankSmall<3, 13>, RankSmall::<3, 13>::new(bv), |x| obs_rank(x, seed)),
        9 => roundtrip!(cx, "Select9", Select9, Select9::new(Rank9::new(bv)), |x| [obs_rank(x, seed), obs_select(x, seed)].concat()),
        10 => roundtrip!(cx, "SelectAdapt<AddNumBits>", SelectAdapt<A>, SelectAdapt::new(A::from(bv), m), |x| obs_select(x, seed)),
        11 => roundtrip!(cx, "SelectAdapt::with_inv<AddNumBits>", SelectAdapt<A>, SelectAdapt::with_inv(A::from(bv), m, 1), |x| obs_select(x, seed)),
        12 => roundtrip!(cx, "SelectAdaptConst<AddNumBits,3,1>", SelectAdaptConst<A, Box<[usize]>, 3, 1>, SelectAdaptConst::<A, Box<[usize]>, 3, 1>::new(A::from(bv)), |x| obs_select(x, seed)),
        13 => roundtrip!(cx, "SelectZeroAdapt<AddNumBits>", SelectZeroAdapt<A>, SelectZeroAdapt::new(A::from(bv), m), |x| obs_select_zero(x, seed)),
        14 => roundtrip!(cx, "SelectZeroAdaptConst<AddNumBits,2,0>", SelectZeroAdaptConst<A, Box<[usize]>, 2, 0>, SelectZeroAdaptConst::<A, Box<[usize]>, 2, 0>::new(A::from(bv)), |x| obs_select_zero(x, seed)),
        15 => roundtrip!(cx, "SelectSmall<1,9,RankSmall>", SelectSmall<1, 9, RankSmall<1, 9>>, SelectSmall::<1, 9, _>::new(RankSmall::<1, 9>::new(bv)), |x| obs_rank(x, seed), full_only |y| obs_select(y, seed)),
        16 => roundtrip!(cx, "SelectSmall<3,13,RankSmall>", SelectSmall<3, 13, RankSmall<3, 13>>, SelectSmall::<3, 13, _>::new(RankSmall::<3, 13>::new(bv)), |x| obs_rank(x, seed), full_only |y| obs_select(y, seed)),
        17 => roundtrip!(cx, "SelectZeroSmall<1,10,RankSmall>", SelectZeroSmall<1, 10, RankSmall<1, 10>>, SelectZeroSmall::<1, 10, _>::new(RankSmall::<1, 10>::new(bv)), |x| obs_rank(x, seed), full_only |y| obs_select_zero(y, seed)),
        18 => roundtrip!(cx, "SelectZeroAdapt<SelectAdapt<Rank9>>", SelectZeroAdapt<SelectAdapt<Rank9>>, SelectZeroAdapt::new(SelectAdapt::new(Rank9::new(bv), m), m), |x| [obs_rank(x, seed), obs_select(x, seed), obs_select_zero(x, seed)].concat()),
        19 => roundtrip!(cx, "SelectZeroSmall<2,9,SelectSmall<RankSmall>>", SelectZeroSmall<2, 9, SelectSmall<2, 9, RankSmall<2, 9>>>, SelectZeroSmall::<2, 9, _>::new(SelectSmall::<2, 9, _>::new(RankSmall::<2, 9>::new(bv))), |x| obs_rank(x, seed), full_only |y| [obs_select(y, seed), obs_select_zero(y, seed)].concat()),
        20 => roundtrip!(cx, "SelectAdapt<Rank9>", SelectAdapt<Rank9>, SelectAdapt::with_span(Rank9::new(bv), 64, m), |x| [obs_rank(x, seed), obs_select(x, seed), obs_index(x, seed)].concat()),
        21 => roundtrip!(cx, "SelectAdaptConst<Rank9>", SelectAdaptConst<Rank9>, SelectAdaptConst::<Rank9>::new(Rank9::new(bv)), |x| [obs_rank(x, seed), obs_select(x, seed)].concat()),
        22 => roundtrip!(cx, "SelectZeroAdapt<Select9>", SelectZeroAdapt<Select9>, SelectZeroAdapt::new(Select9::new(Rank9::new(bv)), m), |x| [obs_rank(x, seed), obs_select(x, seed), obs_select_zero(x, seed)].concat()),
        _ => roundtrip!(cx, "RankSmall<1,9,AddNumBits>", RankSmall<1, 9, A>, RankSmall::<1, 9, A>::new(A::from(bv)), |x| [obs_rank(x, seed), obs_index(x, seed)].concat()),
    }
    Ok(())
}

fn bfv_case(cx: &mut Ctx, u: &mut Unstructured) -> R {
    let which = u.int_in_range(0u8..=5).unwrap_or(0);
    let len = len_class(u, 400);
    let salt: u64 = u.arbitrary().unwrap_or(1);
    macro_rules! go {
        ($w:ty) => {{
            let width = u.int_in_range(0usize..=<$w>::BITS as usize).unwrap_or(5);
            cx.hash(&("bfv", stringify!($w), width, len, salt));
            cx.describe(|| format!("BitFieldVec<{}> width {width} len {len}", stringify!($w)));
            cx.nontrivial_if(len > 0 && width > 0);
            let mut v = BitFieldVec::<$w>::new(width, len);
            for i in 0..len {
                if width > 0 {
                    sux::traits::BitFieldSliceMut::set(&mut v, i, props_bits::words::field_hash(i, salt, width) as $w);
                }
            }
            if which % 2 == 0 {
                roundtrip!(cx, concat!("BitFieldVec<", stringify!($w), ">"), BitFieldVec<$w>, v, |x| obs_bfv(x))
            } else {
                roundtrip!(cx, concat!("BitFieldVec<", stringify!($w), ",Box>"), BitFieldVec<$w, Box<[$w]>>, v.into(), |x| obs_bfv(x))
            }
        }};
    }
    match which {
        0 | 1 => go!(usize),
        2 => go!(u64),
        3 => go!(u16),
        4 => go!(u8),
        _ => go!(u32),
    }
    Ok(())
}

fn ef_case(cx: &mut Ctx, u: &mut Unstructured) -> R {
    let which = u.int_in_range(0u8..=4).unwrap_or(0);
    let d = decode_seq(u, 300);
    cx.hash(&("ef", which, &d));
    cx.describe(|| format!("Elias-Fano variant {which}: n={} u={} values={:?}", d.values.len(), d.u, &d.values[..d.values.len().min(20)]));
    cx.nontrivial_if(d.values.len() >= 2);
    cx.label_if(d.values.is_empty(), "empty");
    let plain = build_plain(cx, &d)?;
    let seed = d.seed;
    let uu = props_dict::ef::effective_u(&d);
    let mut queries: Vec<usize> = vec![0, 1, uu, uu.saturating_add(1), usize::MAX, uu / 2];
    for v in d.values.iter().step_by((d.values.len() / 30).max(1)) {
        queries.extend([*v, v.saturating_add(1), v.saturating_sub(1)]);
    }
    match which {
        0 => roundtrip!(cx, "EliasFano (plain)", EliasFano, plain, |x| vec![x.len() as u64].into_iter().chain(x.iter().map(|v| v as u64)).collect()),
        1 => roundtrip!(cx, "EfSeq", EfSeq, unsafe { plain.map_high_bits(SelectAdaptConst::<_, _, 12, 3>::new) }, |x| obs_seq(x, seed)),
        2 => roundtrip!(cx, "EfDict", EfDict, unsafe { plain.map_high_bits(SelectZeroAdaptConst::<_, _, 12, 3>::new) }, |x| obs_index_of(x, &queries)),
        3 => roundtrip!(cx, "EfSeqDict", EfSeqDict, unsafe { plain.map_high_bits(SelectAdaptConst::<_, _, 12, 3>::new).map_high_bits(SelectZeroAdaptConst::<_, _, 12, 3>::new) }, |x| [obs_seq(x, seed), obs_dict(x, &queries)].concat()),
        _ => roundtrip!(cx, "EliasFano<SelectZeroAdapt<SelectAdapt>>", EliasFano<SelectZeroAdapt<SelectAdapt<BitVec<Box<[usize]>>>>>, unsafe { plain.map_high_bits(|h| SelectZeroAdapt::new(SelectAdapt::new(h, 2), 2)) }, |x| [obs_seq(x, seed), obs_dict(x, &queries)].concat()),
    }
    Ok(())
}

fn rcl_case(cx: &mut Ctx, u: &mut Unstructured) -> R {
    let n = u.int_in_range(0usize..=80).unwrap_or(5);
    let k = u.int_in_range(1usize..=9).unwrap_or(4);
    let sorted: bool = u.arbitrary().unwrap_or(true);
    let salt: u32 = u.arbitrary().unwrap_or(0);
    cx.hash(&("rcl", n, k, sorted, salt));
    cx.describe(|| format!("RearCodedList n={n} k={k} sorted={sorted} salt={salt}"));
    cx.nontrivial_if(n >= 2);
    cx.label_if(n == 0, "empty");
    let mut strings: Vec<String> = (0..n).map(|i| format!("{}{}{}", ["pre/fix/", "pre/", "z", "", "é€"][(i + salt as usize) % 5], (i as u32).wrapping_mul(salt | 1) % 1000, "x".repeat(i % 4 * 40))).collect();
    if sorted {
        strings.sort();
    }
    let mut b = RearCodedListBuilder::new(k);
    for s in &strings {
        b.push(s);
    }
    let mut probes: Vec<String> = strings.iter().step_by(3).cloned().collect();
    probes.extend(["".to_string(), "zzz".to_string(), "pre/".to_string()]);
    roundtrip!(cx, "RearCodedList", RearCodedList, b.build(), |x| obs_rcl(x, &probes));
    Ok(())
}

fn func_case(cx: &mut Ctx, u: &mut Unstructured) -> R {
    let which = u.int_in_range(0u8..=11).unwrap_or(0);
    let n = match u.int_in_range(0u8..=3).unwrap_or(1) {
        0 => u.int_in_range(0usize..=3).unwrap_or(0),
        _ => u.int_in_range(0usize..=600).unwrap_or(100),
    };
    let filter: bool = u.arbitrary().unwrap_or(false);
    func_case_with(cx, which, n, filter)
}

/// Sharded instances (from 100000 keys the sharding logics store a non-trivial
/// shard shift and per-shard geometry, which must survive every loading path).
fn sharded_func_case(cx: &mut Ctx, j: u64) -> R {
    let which = [0u8, 4, 5, 11, 8, 1, 7, 2][j as usize % 8];
    let n = [100_001usize, 450_000, 200_003, 799_999, 120_000][(j / 8) as usize % 5];
    cx.label("sharded-size");
    func_case_with(cx, which, n, (j / 4) % 2 == 1)
}

fn func_case_with(cx: &mut Ctx, which: u8, n: usize, filter: bool) -> R {
    cx.hash(&("func", which, n, filter));
    cx.describe(|| format!("{} type #{which} over {n} keys", if filter { "filter" } else { "function" }));
    cx.nontrivial_if(n >= 1);
    cx.label_if(n == 0, "empty");
    let cfg = Cfg::default();
    macro_rules! go {
        ($k:ty, $t:ty, $w:ty, $d:ty, $s:ty, $e:ty) => {{
            let logic = logic_name::<$s, $e>();
            cx.label(logic);
            if mwhc_never_converges(logic, n) && cx.excluded(KF_MWHC) {
                return Ok(());
            }
            let keys = Arc::new(props_func::c07::gen_keys::<$k>(n.min(<$k as KeySrc>::MAX), 0));
            let mut probe_keys: Vec<<$k as KeySrc>::Owned> = keys.iter().cloned().collect();
            probe_keys.extend((0..50).map(|i| <$k as KeySrc>::probe(i, 0)));
            let refs: Vec<&$t> = probe_keys.iter().map(|k| <$k as KeySrc>::as_t(k)).collect();
            let kl = <$k as KeySrc>::lender(keys.clone(), Fault::None, Arc::new(Mutex::new(Log::default())));
            if filter {
                let bits = props_func::c08::pick_bits(which, <$w>::BITS as usize, <$d as FilterBuild<$k, $w, $s, $e>>::IS_BFV);
                let f = match cx.must("try_build_filter", || <$d as FilterBuild<$k, $w, $s, $e>>::build_filter(&cfg, keys.len(), kl, bits))? {
                    Ok(f) => f,
                    Err(e) => return Err(Fail::mismatch("build.err", format!("build.err: {e:#}"))),
                };
                roundtrip!(cx, "VFilter", VFilter<$w, VFunc<$t, $w, $d, $s, $e>>, f, |x| obs_filter(x, &refs));
            } else {
                let values = Arc::new(props_func::c07::gen_values::<$w>(keys.len(), 3, 11));
                let vl = PlanLender::new(values, Fault::None, "values", Arc::new(Mutex::new(Log::default())));
                let f = match cx.must("try_build_func", || <$d as FuncBuild<$k, $w, $s, $e>>::build(&cfg, keys.len(), kl, vl))? {
                    Ok(f) => f,
                    Err(e) => return Err(Fail::mismatch("build.err", format!("build.err: {e:#}"))),
                };
                roundtrip!(cx, "VFunc", VFunc<$t, $w, $d, $s, $e>, f, |x| obs_func(x, &refs));
            }
        }};
    }
    match which {
        0 => go!(KUsize, usize, usize, BitFieldVec<usize>, [u64; 2], FuseLge3Shards),
        1 => go!(KUsize, usize, usize, Box<[usize]>, [u64; 2], FuseLge3Shards),
        2 => go!(KUsize, usize, usize, BitFieldVec<usize>, [u64; 1], FuseLge3NoShards),
        3 => go!(KUsize, usize, usize, Box<[usize]>, [u64; 2], FuseLge3NoShards),
        4 => go!(KStr, str, usize, BitFieldVec<usize>, [u64; 2], FuseLge3FullSigs),
        5 => go!(KUsize, usize, usize, BitFieldVec<usize>, [u64; 2], Mwhc3Shards),
        6 => go!(KUsize, usize, usize, Box<[usize]>, [u64; 2], Mwhc3NoShards),
        7 => go!(KStr, str, u32, Box<[u32]>, [u64; 2], FuseLge3FullSigs),
        8 => go!(KStr, str, u8, Box<[u8]>, [u64; 2], FuseLge3Shards),
        9 => go!(KString, String, u64, Box<[u64]>, [u64; 1], FuseLge3NoShards),
        10 => go!(KUsize, usize, u16, BitFieldVec<u16>, [u64; 2], FuseLge3NoShards),
        _ => go!(KU64, u64, u64, BitFieldVec<u64>, [u64; 2], FuseLge3Shards),
    }
    Ok(())
}

impl Property for C15 {
    fn id(&self) -> &'static str {
        "C15"
    }
    fn plan(&self, tier: Tier) -> Vec<Segment> {
        vec![
            Segment::random("bit vectors, rank/select structures", tier.pick(7_200, 240_000), &[0], 16, 200),
            Segment::random("bit-field vectors", tier.pick(1_800, 60_000), &[1], 16, 60),
            Segment::random("Elias-Fano variants", tier.pick(3_000, 96_000), &[2], 16, 400),
            Segment::random("rear-coded lists", tier.pick(1_200, 36_000), &[3], 16, 60),
            Segment::random("functions and filters", tier.pick(1_800, 60_000), &[4], 16, 60),
            Segment::enumerated("sharded functions and filters (>= 100000 keys)", tier.pick(8, 40), &[5]),
        ]
    }
    fn rule(&self) -> &'static str {
        "case = (structure from a menu: BitVec (Vec and Box backends), BitFieldVec<u8..usize> (Vec and Box), AddNumBits, Rank9, the five RankSmall, Select9, SelectAdapt new/with_inv/with_span, SelectAdaptConst, SelectZeroAdapt, SelectZeroAdaptConst, SelectSmall/SelectZeroSmall, two- and three-level nestings, EliasFano plain/EfSeq/EfDict/EfSeqDict/custom back-end, RearCodedList, VFunc and VFilter on 12 concrete builder types covering the five shard/edge logics and str/String/usize/u64 keys, up to 600 keys and, in an enumerated segment, 100001..799999 keys (sharded instances); with generated contents including empty instances) decoded from bytes. Oracle = the original instance: the same generic observation function (len/counts/bits, rank and rank_zero, select, select_zero at sampled and boundary positions incl. far out of range, get/iter/iter_from, index_of/succ/pred queries, get/contains for members and non-members) is run on the original and on the value obtained by serialize + deserialize_full, deserialize_eps on the aligned bytes, store + mmap, load_mem, load_mmap, load_full; answer vectors must be identical; serialize_with_schema must write the same bytes. Non-trivial: non-empty structure with at least two backing arrays; distinct = distinct hash of the decoded case."
    }
    fn run(&self, data: &[u8], cx: &mut Ctx) -> R {
        let (mode, rest) = data.split_first().unwrap_or((&0, &[]));
        let mut u = Unstructured::new(rest);
        match *mode {
            0 => bits_and_ranksel(cx, &mut u),
            1 => bfv_case(cx, &mut u),
            2 => ef_case(cx, &mut u),
            3 => rcl_case(cx, &mut u),
            5 => {
                let mut b = [0u8; 8];
                b[..rest.len().min(8)].copy_from_slice(&rest[..rest.len().min(8)]);
                sharded_func_case(cx, u64::from_le_bytes(b))
            }
            _ => func_case(cx, &mut u),
        }
    }
}
