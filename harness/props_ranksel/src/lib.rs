use engine::Property;
pub mod bv;
pub mod c01;
pub mod c02;
pub mod huge;
pub mod stacks;

pub fn properties() -> Vec<Box<dyn Property>> {
    vec![Box::new(c01::C01), Box::new(c02::C02)]
}
