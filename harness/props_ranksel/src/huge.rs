//! Bit vectors longer than 2^32 bits (upper counters of RankSmall, superblock
//! logic of SelectSmall, 64-bit spans of the adaptive selectors). The words
//! stay in the harness and the structures are built over `BitVec<&[usize]>`,
//! so nothing is copied; sparse vectors are mostly untouched zero pages.

use engine::*;
use sux::bits::BitVec;
use sux::rank_sel::*;
use sux::traits::*;

pub struct Huge {
    pub len: usize,
    pub words: Vec<usize>,
    /// ones before every 512-word chunk
    cum: Vec<usize>,
    pub num_ones: usize,
}

const CH: usize = 512;

impl Huge {
    /// pattern 0: dense random; 1: sparse (a one every ~2^20 bits) plus clusters around 2^32;
    /// 2: dense prefix of 2^20 bits, then ones at prescribed huge gaps
    pub fn new(j: u64) -> Huge {
        let delta = [65usize, 4097, 0, 1, 64, (1 << 31) + 12345][(j / 5) as usize % 6];
        let pattern = if j >= 5000 { 9 } else if j >= 4000 { 8 } else if j >= 3000 { 7 } else if j >= 2000 { 6 } else if j >= 1000 { 5 } else { j % 5 };
        let len = match pattern {
            9 => [(1usize << 32) + 9000, (1usize << 33) + 77, (1usize << 32) + (1 << 20)][(j - 5000) as usize % 3],
            8 => (1usize << 32) + 5000 + (j - 4000) as usize % 3 * 64,
            7 => (1usize << 32) + [(1usize << 30) + 64, 1 << 20, (1usize << 31) + 12345, (1usize << 32) + 4097][(j - 3000) as usize % 4],
            6 => (1usize << 32) + (1 << 17) + [0usize, 77, 4096, 1 << 20][(j / 4) as usize % 4],
            5 => (1usize << 33) + (1 << 30) + 7 + (j as usize % 3) * 64,
            3 => (1usize << 33) + (1 << 20),
            4 => (1usize << 34) + 77,
            _ => (1usize << 32) + delta,
        };
        let nw = len.div_ceil(64);
        let mut words = vec![0usize; nw];
        let mut x: u64 = 0x9E37_79B9_7F4A_7C15 ^ j;
        let mut next = || {
            x ^= x << 13;
            x ^= x >> 7;
            x ^= x << 17;
            x
        };
        let set = |words: &mut Vec<usize>, p: usize| {
            if p < len {
                words[p / 64] |= 1 << (p % 64)
            }
        };
        match pattern {
            0 => {
                for w in words.iter_mut() {
                    *w = next() as usize;
                }
            }
            1 => {
                let mut p = 3usize;
                while p < len {
                    set(&mut words, p);
                    p += 1 + (next() as usize % (1 << 21));
                }
                for d in [0usize, 1, 63, 64, 65, 511, 512, 513, 4096] {
                    for base in [(1usize << 32) - 1 - d, (1usize << 32) + d] {
                        set(&mut words, base);
                    }
                }
            }
            2 => {
                for w in words[..(1 << 20) / 64].iter_mut() {
                    *w = next() as usize | 1;
                }
                for p in [(1usize << 31) + 7, (1usize << 32) - 1, 1usize << 32, (1usize << 32) + 1, len - 1] {
                    set(&mut words, p);
                }
            }
            3 => {
                // three upper blocks: a dense prefix with 2^20 + 1 + (j/5)%4 ones, an upper
                // block with just two ones (no inventory entry starts there when an
                // entry covers several ones), then more ones in the third upper block
                let ones = (1usize << 20) + 1 + (j / 5) as usize % 4;
                for i in 0..ones {
                    set(&mut words, i);
                }
                for p in [(1usize << 32) + 5, (1usize << 32) + 700, (1usize << 33) + 3, (1usize << 33) + 64, (1usize << 33) + 65, (1usize << 33) + 500, (1usize << 33) + 1000, (1usize << 33) + 70_000, len - 1] {
                    set(&mut words, p);
                }
            }
            9 => {
                // upper blocks that are empty except for their last few thousand bits (the last counter block of
                // every RankSmall variant), then a few ones right after the boundary
                let k = j - 5000;
                let tail: &[usize] = [&[3usize, 37, 100][..], &[1, 600, 1500, 5000, 8100][..], &[511, 512, 513, 2047, 2049][..], &[8191, 8192, 8193, 1][..]][(k / 3) as usize % 4];
                let mut b = 1usize << 32;
                while b <= len {
                    for d in tail {
                        set(&mut words, b - d);
                    }
                    if (k / 12) % 2 == 0 {
                        set(&mut words, b + 5);
                    }
                    b += 1usize << 32;
                }
                set(&mut words, len - 1);
            }
            8 => {
                // an inventory entry spanning exactly 2^32 - 1, 2^32 or 2^32 + 1... + 1 bits, its last one at offset
                // 2^32 + d from its first and directly before the first one of the next entry
                let k = j - 4000;
                let d = [0i64, -1, 1][k as usize % 3];
                let a = 5usize;
                let last = (a as i64 + (1i64 << 32) + d) as usize;
                if (k / 3) % 2 == 0 {
                    // tiny entries (1-4 ones per inventory entry)
                    set(&mut words, a);
                } else {
                    // an entry of 4096 ones: 4095 packed at the start, the last one far away
                    for i in 0..4095 {
                        set(&mut words, a + i);
                    }
                }
                set(&mut words, last);
                set(&mut words, last + 1);
                set(&mut words, last + 70);
                set(&mut words, last + 71);
                if (k / 6) % 2 == 1 {
                    for w in words.iter_mut() {
                        *w = !*w;
                    }
                }
            }
            7 => {
                // irregular dense contents (density 1/2, 1/4, 3/4) with a long second (and third) upper block: the
                // number of ones before an upper block is then no multiple of anything
                let d = (j - 3000) / 4 % 3;
                for w in words.iter_mut() {
                    let (a, b) = (next() as usize, next() as usize);
                    *w = match d {
                        0 => a,
                        1 => a & b,
                        _ => a | b,
                    };
                }
            }
            6 => {
                // inventory entries of mixed span classes followed by an entry spanning more than 2^32 bits:
                // optionally a dense run (16-bit spans), then 4096*c + 1 + e ones at a stride that makes each
                // entry of 4096 ones span 2^16..2^21 bits (32-bit subinventories), then an empty tail
                let k = j - 2000;
                let stride = [32usize, 17, 100, 500, 16, 511][k as usize % 6];
                let c = 1 + (k / 6) as usize % 2;
                let extra = [0usize, 1, 300, 4095][(k / 12) as usize % 4];
                let mut p = 0usize;
                if k % 3 == 2 {
                    for _ in 0..8192 {
                        set(&mut words, p);
                        p += 1 + (next() as usize % 2);
                    }
                }
                for _ in 0..4096 * c + 1 + extra {
                    set(&mut words, p);
                    p += stride;
                }
                if k % 2 == 1 {
                    set(&mut words, len - 1);
                }
                if (k / 2) % 2 == 1 {
                    // complement: the same shape for the zero selectors
                    for w in words.iter_mut() {
                        *w = !*w;
                    }
                }
            }
            5 => {
                for w in words.iter_mut() {
                    *w = !0;
                }
                // a few zeros so that zero-related answers are not trivial
                for p in [5usize, (1 << 32) + 1, (1 << 33) + 64, len - 2] {
                    words[p / 64] &= !(1 << (p % 64));
                }
            }
            _ => {
                // ultra sparse: gaps around 2^31, so that 4 consecutive ones span more than 2^32 bits
                let mut p = 11usize;
                while p < len {
                    set(&mut words, p);
                    p += (1usize << 31) - 3 + (next() as usize % 7);
                }
                set(&mut words, len - 1);
            }
        }
        if len % 64 != 0 {
            words[nw - 1] &= (1usize << (len % 64)) - 1;
        }
        let mut cum = Vec::with_capacity(nw / CH + 2);
        let mut c = 0usize;
        for ch in words.chunks(CH) {
            cum.push(c);
            c += ch.iter().map(|w| w.count_ones() as usize).sum::<usize>();
        }
        cum.push(c);
        Huge { len, words, cum, num_ones: c }
    }
    pub fn rank(&self, p: usize) -> usize {
        if p >= self.len {
            return self.num_ones;
        }
        let w = p / 64;
        let mut r = self.cum[w / CH];
        for i in (w / CH) * CH..w {
            r += self.words[i].count_ones() as usize;
        }
        r + (self.words[w] & ((1usize << (p % 64)) - 1)).count_ones() as usize
    }
    pub fn select(&self, r: usize) -> Option<usize> {
        if r >= self.num_ones {
            return None;
        }
        let c = self.cum.partition_point(|x| *x <= r) - 1;
        let mut rem = r - self.cum[c];
        for i in c * CH..self.words.len() {
            let k = self.words[i].count_ones() as usize;
            if rem < k {
                let mut w = self.words[i];
                for _ in 0..rem {
                    w &= w - 1;
                }
                return Some(i * 64 + w.trailing_zeros() as usize);
            }
            rem -= k;
        }
        None
    }
    pub fn select_zero(&self, r: usize) -> Option<usize> {
        if r >= self.len - self.num_ones {
            return None;
        }
        // chunk c holds zeros [c*CH*64 - cum[c], ...)
        let mut lo = 0usize;
        let mut hi = self.cum.len() - 1;
        while lo + 1 < hi {
            let mid = (lo + hi) / 2;
            if mid * CH * 64 - self.cum[mid] <= r {
                lo = mid;
            } else {
                hi = mid;
            }
        }
        let mut rem = r - (lo * CH * 64 - self.cum[lo]);
        for i in lo * CH..self.words.len() {
            let k = (!self.words[i]).count_ones() as usize;
            if rem < k {
                let mut w = !self.words[i];
                for _ in 0..rem {
                    w &= w - 1;
                }
                return Some(i * 64 + w.trailing_zeros() as usize);
            }
            rem -= k;
        }
        None
    }
    pub fn positions(&self, seed: u64) -> Vec<usize> {
        let mut v = vec![0, 1, self.len - 1, self.len, self.len + 1, usize::MAX];
        for d in [0usize, 1, 2, 63, 64, 65, 511, 512, 513, 2047, 2048, 8191, 8192, 8193, 1 << 16, 1 << 20] {
            v.push((1usize << 32) - d);
            v.push((1usize << 32) + d);
            v.push((1usize << 31) + d);
            v.push((1usize << 33) + d);
            v.push((1usize << 33) - d);
            v.push((1usize << 34) + d);
        }
        let mut x = seed | 1;
        for _ in 0..300 {
            x ^= x << 13;
            x ^= x >> 7;
            x ^= x << 17;
            v.push(x as usize % (self.len + 100));
        }
        v
    }
    pub fn ranks(&self, count: usize, seed: u64) -> Vec<usize> {
        let mut v = vec![0usize, 1, count.saturating_sub(1), count, count + 1, usize::MAX];
        // ranks around the 2^32 boundary
        for k in 1..=4usize {
            let r32 = self.rank(k << 32);
            for d in 0..6 {
                v.push(r32.saturating_sub(d));
                v.push(r32 + d);
            }
        }
        // for sparse vectors: every rank
        if count <= 20_000 {
            v.extend(0..count);
        }
        let mut x = seed | 1;
        for _ in 0..300 {
            x ^= x << 13;
            x ^= x >> 7;
            x ^= x << 17;
            v.push(x as usize % (count + 2));
        }
        // dense vectors: many ranks whose answer lies beyond 2^32
        let r32 = self.rank(1 << 32);
        if count > r32 + 10_000 {
            for _ in 0..3000 {
                x ^= x << 13;
                x ^= x >> 7;
                x ^= x << 17;
                v.push(r32 + x as usize % (count - r32));
            }
        }
        v
    }
}

/// Set by C12: run every query but do not compare answers (only the process
/// outcome is judged there, and a wrong answer must not stop the queries).
pub static OUTCOME_ONLY: std::sync::atomic::AtomicBool = std::sync::atomic::AtomicBool::new(false);

fn outcome_only() -> bool {
    OUTCOME_ONLY.load(std::sync::atomic::Ordering::Relaxed)
}

pub fn check_rank<T: Rank + RankZero + NumBits + BitLength>(cx: &mut Ctx, name: &str, s: &T, h: &Huge, seed: u64) -> R {
    let l = cx.must("len", || BitLength::len(s))?;
    cx.check_eq(l, h.len, "len", || format!("{name}: len()"))?;
    let n1 = cx.must("num_ones", || s.num_ones())?;
    cx.check_eq(n1, h.num_ones, "num_ones", || format!("{name}: num_ones() on {} bits", h.len))?;
    for p in h.positions(seed) {
        if outcome_only() {
            cx.any(|| (s.rank(p), s.rank_zero(p)));
            continue;
        }
        let r = cx.must("rank", || s.rank(p))?;
        let want = h.rank(p);
        cx.check_eq(r, want, "rank", || format!("{name}: rank({p}) on a vector of {} bits", h.len))?;
        let rz = cx.must("rank_zero", || s.rank_zero(p))?;
        cx.check_eq(rz, p - want, "rank_zero", || format!("{name}: rank_zero({p})"))?;
    }
    Ok(())
}

pub fn check_select<T: Select + NumBits>(cx: &mut Ctx, name: &str, s: &T, h: &Huge, seed: u64) -> R {
    for r in h.ranks(h.num_ones, seed) {
        if outcome_only() {
            cx.any(|| s.select(r));
            continue;
        }
        let got = cx.must("select", || s.select(r))?;
        cx.check_eq(got, h.select(r), "select", || format!("{name}: select({r}) with {} ones on {} bits", h.num_ones, h.len))?;
    }
    Ok(())
}

pub fn check_select_zero<T: SelectZero + NumBits>(cx: &mut Ctx, name: &str, s: &T, h: &Huge, seed: u64) -> R {
    for r in h.ranks(h.len - h.num_ones, seed) {
        if outcome_only() {
            cx.any(|| s.select_zero(r));
            continue;
        }
        let got = cx.must("select_zero", || s.select_zero(r))?;
        cx.check_eq(got, h.select_zero(r), "select_zero", || format!("{name}: select_zero({r}) with {} zeros on {} bits", h.len - h.num_ones, h.len))?;
    }
    Ok(())
}

type B<'a> = BitVec<&'a [usize]>;

pub fn rank_case(cx: &mut Ctx, j: u64) -> R {
    let h = Huge::new(j);
    cx.label("len>2^32");
    cx.nontrivial();
    let bv: B = unsafe { BitVec::from_raw_parts(&h.words[..], h.len) };
    let seed = j ^ 0xFACE;
    macro_rules! one {
        ($name:expr, $build:expr) => {{
            let s = cx.must($name, || $build)?;
            check_rank(cx, $name, &s, &h, seed)?;
        }};
    }
    one!("Rank9", Rank9::new(bv.clone()));
    one!("RankSmall<2,9>", RankSmall::<2, 9, _>::new(bv.clone()));
    one!("RankSmall<1,9>", RankSmall::<1, 9, _>::new(bv.clone()));
    one!("RankSmall<1,10>", RankSmall::<1, 10, _>::new(bv.clone()));
    one!("RankSmall<1,11>", RankSmall::<1, 11, _>::new(bv.clone()));
    one!("RankSmall<3,13>", RankSmall::<3, 13, _>::new(bv.clone()));
    Ok(())
}

pub fn select_case(cx: &mut Ctx, j: u64) -> R {
    let h = Huge::new(j);
    cx.label("len>2^32");
    cx.nontrivial();
    let bv: B = unsafe { BitVec::from_raw_parts(&h.words[..], h.len) };
    let seed = j ^ 0xBEEF;
    let maxgap = {
        // only meaningful for the sparse patterns: label 64-bit spans
        let a = h.select(0).unwrap_or(0);
        let b = h.select(h.num_ones.saturating_sub(1)).unwrap_or(0);
        b - a
    };
    cx.label_if(h.num_ones < 100 && maxgap > 1 << 32, "span>2^32");
    if j >= 5000 {
        // (a rank pattern; the selectors see it too)
        let s = cx.must("SelectSmall", || SelectSmall::<1, 9, _>::new(RankSmall::<1, 9, _>::new(bv.clone())))?;
        check_select(cx, "SelectSmall<1,9>", &s, &h, seed)?;
        check_rank(cx, "SelectSmall<1,9>", &s, &h, seed)?;
        let s = cx.must("SelectSmall", || SelectSmall::<3, 13, _>::new(RankSmall::<3, 13, _>::new(bv.clone())))?;
        check_select(cx, "SelectSmall<3,13>", &s, &h, seed)?;
        check_rank(cx, "SelectSmall<3,13>", &s, &h, seed)?;
        return Ok(());
    }
    if j >= 4000 {
        let complemented = ((j - 4000) / 6) % 2 == 1;
        cx.label("exact-2^32-spans");
        if !complemented {
            macro_rules! konst {
                ($k:literal, $m:literal) => {{
                    let s = cx.must("SelectAdaptConst", || SelectAdaptConst::<_, Box<[usize]>, $k, $m>::new(AddNumBits::from(bv.clone())))?;
                    check_select(cx, concat!("SelectAdaptConst<", $k, ",", $m, ">"), &s, &h, seed)?;
                }};
            }
            konst!(12, 3);
            konst!(1, 0);
            konst!(2, 1);
            konst!(0, 0);
            for (k, m) in [(12usize, 3usize), (1, 0), (2, 2), (0, 0), (13, 0)] {
                let s = cx.must("SelectAdapt::with_inv", || SelectAdapt::with_inv(AddNumBits::from(bv.clone()), k, m))?;
                check_select(cx, &format!("SelectAdapt::with_inv({k},{m})"), &s, &h, seed)?;
            }
        } else {
            let z = cx.must("SelectZeroAdaptConst", || SelectZeroAdaptConst::<_, Box<[usize]>, 12, 3>::new(AddNumBits::from(bv.clone())))?;
            check_select_zero(cx, "SelectZeroAdaptConst<12,3>", &z, &h, seed)?;
            let z = cx.must("SelectZeroAdaptConst", || SelectZeroAdaptConst::<_, Box<[usize]>, 1, 0>::new(AddNumBits::from(bv.clone())))?;
            check_select_zero(cx, "SelectZeroAdaptConst<1,0>", &z, &h, seed)?;
            for (k, m) in [(12usize, 3usize), (1, 0), (2, 2)] {
                let z = cx.must("SelectZeroAdapt::with_inv", || SelectZeroAdapt::with_inv(AddNumBits::from(bv.clone()), k, m))?;
                check_select_zero(cx, &format!("SelectZeroAdapt::with_inv({k},{m})"), &z, &h, seed)?;
            }
        }
        return Ok(());
    }
    if j >= 3000 {
        cx.label("dense-two-upper-blocks");
        macro_rules! small {
            ($n:literal, $w:literal) => {{
                let s = cx.must("SelectSmall", || SelectSmall::<$n, $w, _>::new(RankSmall::<$n, $w, _>::new(bv.clone())))?;
                check_select(cx, &format!("SelectSmall<{},{}>", $n, $w), &s, &h, seed)?;
                let z = cx.must("SelectZeroSmall", || SelectZeroSmall::<$n, $w, _>::new(RankSmall::<$n, $w, _>::new(bv.clone())))?;
                check_select_zero(cx, &format!("SelectZeroSmall<{},{}>", $n, $w), &z, &h, seed)?;
            }};
        }
        match (j - 3000) % 5 {
            0 => small!(2, 9),
            1 => small!(1, 11),
            2 => small!(1, 9),
            3 => small!(3, 13),
            _ => {
                small!(1, 10);
                let s = cx.must("SelectAdapt", || SelectAdapt::new(AddNumBits::from(bv.clone()), 3))?;
                check_select(cx, "SelectAdapt", &s, &h, seed)?;
                let s = cx.must("Select9", || Select9::new(Rank9::new(bv.clone())))?;
                check_select(cx, "Select9", &s, &h, seed)?;
            }
        }
        return Ok(());
    }
    if j >= 2000 {
        // mixed span classes next to a 64-bit span
        let complemented = ((j - 2000) / 2) % 2 == 1;
        cx.label("mixed-spans");
        if !complemented {
            let s = cx.must("SelectAdaptConst", || SelectAdaptConst::<_, Box<[usize]>, 12, 3>::new(AddNumBits::from(bv.clone())))?;
            check_select(cx, "SelectAdaptConst<12,3>", &s, &h, seed)?;
            let s = cx.must("SelectAdaptConst", || SelectAdaptConst::<_, Box<[usize]>, 10, 2>::new(AddNumBits::from(bv.clone())))?;
            check_select(cx, "SelectAdaptConst<10,2>", &s, &h, seed)?;
            for (k, m) in [(12usize, 3usize), (11, 2), (13, 4), (12, 0)] {
                let s = cx.must("SelectAdapt::with_inv", || SelectAdapt::with_inv(AddNumBits::from(bv.clone()), k, m))?;
                check_select(cx, &format!("SelectAdapt::with_inv({k},{m})"), &s, &h, seed)?;
            }
            let s = cx.must("SelectSmall<2,9>", || SelectSmall::<2, 9, _>::new(RankSmall::<2, 9, _>::new(bv.clone())))?;
            check_select(cx, "SelectSmall<2,9,RankSmall>", &s, &h, seed)?;
            let s = cx.must("Select9", || Select9::new(Rank9::new(bv.clone())))?;
            check_select(cx, "Select9", &s, &h, seed)?;
        } else {
            let z = cx.must("SelectZeroAdaptConst", || SelectZeroAdaptConst::<_, Box<[usize]>, 12, 3>::new(AddNumBits::from(bv.clone())))?;
            check_select_zero(cx, "SelectZeroAdaptConst<12,3>", &z, &h, seed)?;
            let z = cx.must("SelectZeroAdaptConst", || SelectZeroAdaptConst::<_, Box<[usize]>, 10, 2>::new(AddNumBits::from(bv.clone())))?;
            check_select_zero(cx, "SelectZeroAdaptConst<10,2>", &z, &h, seed)?;
            for (k, m) in [(12usize, 3usize), (11, 2), (13, 4)] {
                let z = cx.must("SelectZeroAdapt::with_inv", || SelectZeroAdapt::with_inv(AddNumBits::from(bv.clone()), k, m))?;
                check_select_zero(cx, &format!("SelectZeroAdapt::with_inv({k},{m})"), &z, &h, seed)?;
            }
            let z = cx.must("SelectZeroSmall<2,9>", || SelectZeroSmall::<2, 9, _>::new(RankSmall::<2, 9, _>::new(bv.clone())))?;
            check_select_zero(cx, "SelectZeroSmall<2,9,RankSmall>", &z, &h, seed)?;
        }
        return Ok(());
    }
    if j % 5 == 4 {
        // 64-bit spans: adaptive selectors with all-local and spilling parameters
        macro_rules! konst {
            ($k:literal, $m:literal) => {{
                let s = cx.must("SelectAdaptConst", || SelectAdaptConst::<_, Box<[usize]>, $k, $m>::new(AddNumBits::from(bv.clone())))?;
                check_select(cx, concat!("SelectAdaptConst<", $k, ",", $m, ">"), &s, &h, seed)?;
            }};
        }
        konst!(2, 2);
        konst!(3, 3);
        konst!(2, 4);
        konst!(2, 0);
        konst!(1, 0);
        // (zero selectors with tiny inventories would need ~2^34 inventory words here: only the default parameters)
        let z = cx.must("SelectZeroAdaptConst", || SelectZeroAdaptConst::<_, Box<[usize]>, 12, 3>::new(AddNumBits::from(bv.clone())))?;
        check_select_zero(cx, "SelectZeroAdaptConst<12,3>", &z, &h, seed)?;
        for (k, m) in [(2usize, 6usize), (1, 0), (3, 1), (2, 2)] {
            let s = cx.must("SelectAdapt::with_inv", || SelectAdapt::with_inv(AddNumBits::from(bv.clone()), k, m))?;
            check_select(cx, &format!("SelectAdapt::with_inv({k},{m})"), &s, &h, seed)?;
        }
        return Ok(());
    }
    if j % 5 == 3 {
        // upper blocks without inventory entries
        macro_rules! small {
            ($n:literal, $w:literal, $b:expr) => {{
                let s = cx.must("SelectSmall::with_inv", || SelectSmall::<$n, $w, _>::with_inv(RankSmall::<$n, $w, _>::new(bv.clone()), $b))?;
                check_select(cx, &format!("SelectSmall<{},{}>::with_inv({})", $n, $w, $b), &s, &h, seed)?;
                let z = cx.must("SelectZeroSmall::with_inv", || SelectZeroSmall::<$n, $w, _>::with_inv(RankSmall::<$n, $w, _>::new(bv.clone()), $b))?;
                check_select_zero(cx, &format!("SelectZeroSmall<{},{}>::with_inv({})", $n, $w, $b), &z, &h, seed)?;
            }};
        }
        small!(1, 9, 64);
        small!(1, 9, 8);
        small!(2, 9, 256);
        small!(1, 10, 1024);
        small!(3, 13, 64);
        small!(1, 11, 4096);
        return Ok(());
    }
    match (j / 5) % 4 {
        0 => {
            let s = cx.must("SelectSmall<1,9>", || SelectSmall::<1, 9, _>::new(RankSmall::<1, 9, _>::new(bv.clone())))?;
            check_select(cx, "SelectSmall<1,9,RankSmall>", &s, &h, seed)?;
            let z = cx.must("SelectZeroSmall<1,9>", || SelectZeroSmall::<1, 9, _>::new(s))?;
            check_select_zero(cx, "SelectZeroSmall<1,9,SelectSmall>", &z, &h, seed)?;
            check_select(cx, "SelectZeroSmall<1,9,SelectSmall>", &z, &h, seed)?;
        }
        1 => {
            let s = cx.must("SelectAdapt", || SelectAdapt::new(AddNumBits::from(bv.clone()), 3))?;
            check_select(cx, "SelectAdapt<AddNumBits>", &s, &h, seed)?;
            let z = cx.must("SelectZeroAdapt", || SelectZeroAdapt::new(s, 3))?;
            check_select_zero(cx, "SelectZeroAdapt<SelectAdapt>", &z, &h, seed)?;
        }
        2 => {
            let s = cx.must("Select9", || Select9::new(Rank9::new(bv.clone())))?;
            check_select(cx, "Select9", &s, &h, seed)?;
            check_rank(cx, "Select9", &s, &h, seed)?;
            let s = cx.must("SelectSmall<3,13>", || SelectSmall::<3, 13, _>::new(RankSmall::<3, 13, _>::new(bv.clone())))?;
            check_select(cx, "SelectSmall<3,13,RankSmall>", &s, &h, seed)?;
        }
        _ => {
            let s = cx.must("SelectAdaptConst", || SelectAdaptConst::<_, Box<[usize]>, 12, 3>::new(AddNumBits::from(bv.clone())))?;
            check_select(cx, "SelectAdaptConst<12,3>", &s, &h, seed)?;
            let z = cx.must("SelectZeroAdaptConst", || SelectZeroAdaptConst::<_, Box<[usize]>, 12, 3>::new(s))?;
            check_select_zero(cx, "SelectZeroAdaptConst<SelectAdaptConst>", &z, &h, seed)?;
            let s = cx.must("SelectSmall<2,9>", || SelectSmall::<2, 9, _>::new(RankSmall::<2, 9, _>::new(bv.clone())))?;
            check_select(cx, "SelectSmall<2,9,RankSmall>", &s, &h, seed)?;
        }
    }
    Ok(())
}
