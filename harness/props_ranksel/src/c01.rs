//! C01 — rank(p) is the exact prefix popcount for every vector and rank structure.

use crate::bv::*;
use crate::stacks::*;
use engine::*;

pub struct C01;

impl Property for C01 {
    fn id(&self) -> &'static str {
        "C01"
    }
    fn plan(&self, tier: Tier) -> Vec<Segment> {
        vec![
            Segment::random("small", tier.pick(150_000, 1_500_000), &[0], 8, 300),
            Segment::random("medium", tier.pick(60_000, 600_000), &[1], 8, 300),
            Segment::random("large", tier.pick(5_000, 60_000), &[2], 8, 300),
            Segment::enumerated("huge(>2^32 bits)", tier.pick(5, 30), &[9]),
            Segment::enumerated("huge-dense(>2^33 bits, all ones)", tier.pick(1, 3), &[10]),
            // upper blocks that are empty except for their last counter block
            Segment::enumerated("huge-upper-block-tails", tier.pick(6, 24), &[11]),
        ]
    }
    fn rule(&self) -> &'static str {
        "case = (bit-vector description: length class x content class x construction route incl. pop/resize-down/dirty raw parts, structure parameters, a subset of the rank-capable stacks of the menu) decoded from bytes; oracle = prefix popcounts of the logical bits; observed rank/rank_zero at every p in 0..=len+2 (len<=2048) or at block/word boundaries +-1, 256 sampled positions and p in {len-1,len,len+1,len+63,2len,2^32+1,usize::MAX}, plus num_ones/num_zeros/count_ones/len/Index. Non-trivial: len>=1 and the vector is not constant, or one of the labels full_block, empty_block, stale_tail, len%64=0, len%512=0; distinct = distinct hash of the decoded case."
    }
    fn run(&self, data: &[u8], cx: &mut Ctx) -> R {
        let (mode, rest) = data.split_first().unwrap_or((&0, &[]));
        if *mode == 9 || *mode == 10 || *mode == 11 {
            let mut b = [0u8; 8];
            b[..rest.len().min(8)].copy_from_slice(&rest[..rest.len().min(8)]);
            let j = u64::from_le_bytes(b) + if *mode == 11 { 5000 } else if *mode == 10 { 1000 } else { 0 };
            cx.hash(&("huge", j));
            cx.describe(|| format!("huge case {j}: more than 2^32 bits, pattern {}", j % 5));
            return crate::huge::rank_case(cx, j);
        }
        let cap = match mode % 3 {
            0 => 1100,
            1 => 9000,
            _ => cx.tier.pick(1 << 18, 1 << 22),
        };
        let mut u = Unstructured::new(rest);
        let desc = decode_desc(&mut u, cap, false);
        let params = decode_params(&mut u);
        let menu = menu();
        let ranked: Vec<&Entry> = menu.iter().filter(|e| e.has("rank") || e.has("count")).collect();
        let k = if cap > 10000 { 3 } else { 6 };
        let mut chosen: Vec<usize> = (0..k).map(|_| engine::index(&mut u, ranked.len())).collect();
        chosen.sort();
        chosen.dedup();
        cx.hash(&(&desc, &params, &chosen));
        cx.describe(|| format!("{:?} {:?} stacks={:?}", desc, params, chosen.iter().map(|i| ranked[*i].name).collect::<Vec<_>>()));
        let (bv, model) = build(cx, &desc)?;
        cx.nontrivial_if((model.len >= 1 && !model.is_constant()) || ["full_block", "empty_block", "stale_tail", "len%64=0", "len%512=0"].iter().any(|l| cx.has_label(l)));
        for i in chosen {
            let e = ranked[i];
            cx.label(&format!("s:{}", e.name));
            (e.run)(cx, bv.clone(), &model, &params, What { rank: true, count: true, index: true, ..Default::default() })?;
        }
        Ok(())
    }
}
