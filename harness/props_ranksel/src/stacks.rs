//! The menu of rank/select stacks (DESIGN.md Appendix A) and the generic
//! oracle comparisons run on each of them.

use crate::bv::Model;
use engine::*;
use std::ops::Index;
use sux::bits::BitVec;
use sux::rank_small;
use sux::rank_sel::*;
use sux::traits::*;

#[derive(Debug, Clone, Hash)]
pub struct Params {
    /// log2 ones per inventory for `with_inv`
    pub log2_inv: usize,
    /// max log2 u64 per subinventory
    pub max_sub: usize,
    /// target inventory span for `with_span`
    pub span: usize,
    /// blocks per inventory for SelectSmall / SelectZeroSmall
    pub blocks: usize,
    /// seed for sampled positions/ranks
    pub seed: u64,
    /// also probe Index out of range (C12: answer or panic)
    pub wild: bool,
}

pub fn decode_params(u: &mut Unstructured) -> Params {
    Params {
        log2_inv: u.int_in_range(0usize..=16).unwrap_or(0),
        max_sub: u.int_in_range(0usize..=6).unwrap_or(0),
        span: [8192usize, 1, 64, 1024, 1 << 20, 2, 512, 65536][u.int_in_range(0usize..=7).unwrap_or(0)],
        blocks: [8usize, 1, 2, 64, 3, 16, 0][u.int_in_range(0usize..=6).unwrap_or(0)],
        seed: u.arbitrary().unwrap_or(0),
        wild: false,
    }
}

#[derive(Clone, Copy, Default)]
pub struct What {
    pub rank: bool,
    pub count: bool,
    pub index: bool,
    pub select: bool,
    pub select_zero: bool,
}

pub struct Entry {
    pub name: &'static str,
    pub caps: &'static [&'static str],
    pub run: fn(&mut Ctx, BitVec, &Model, &Params, What) -> R,
}

impl Entry {
    pub fn has(&self, c: &str) -> bool {
        self.caps.contains(&c)
    }
}

// ---- oracle comparisons ------------------------------------------------------

fn positions(m: &Model, p: &Params) -> Vec<usize> {
    let len = m.len;
    let mut v: Vec<usize> = vec![];
    if len <= 2048 {
        v.extend(0..=len + 2);
    } else {
        // all 512-bit block and 64-bit word boundaries +-1 (sampled when many), the ends
        let mut r = crate::bv::Sm(p.seed);
        let nb = len / 512;
        let step = (nb / 256).max(1);
        let mut b = r.below(step);
        while b <= nb {
            let x = b * 512;
            v.extend([x.saturating_sub(1), x, x + 1, x + 63, x + 64, x + 65]);
            b += step;
        }
        for _ in 0..256 {
            v.push(r.below(len));
        }
        for k in [2048usize, 8192, 1 << 16] {
            if len > k {
                v.extend([k - 1, k, k + 1]);
            }
        }
        v.extend([0, 1, len - 1, len, len + 1, len + 2]);
    }
    v.extend([len + 63, len + 64, len.wrapping_mul(2), len + 511, len + 512, (1usize << 32) + 1, usize::MAX / 2, usize::MAX]);
    v
}

pub fn rank<T: Rank + RankZero + NumBits + BitLength>(cx: &mut Ctx, name: &str, s: &T, m: &Model, p: &Params) -> R {
    let l = cx.must("len", || BitLength::len(s))?;
    cx.check_eq(l, m.len, "len", || format!("{name}: len()"))?;
    let n1 = cx.must("num_ones", || s.num_ones())?;
    cx.check_eq(n1, m.num_ones, "num_ones", || format!("{name}: num_ones()"))?;
    let n0 = cx.must("num_zeros", || s.num_zeros())?;
    cx.check_eq(n0, m.len - m.num_ones, "num_zeros", || format!("{name}: num_zeros()"))?;
    for pos in positions(m, p) {
        let r = cx.must("rank", || s.rank(pos))?;
        let want = m.rank(pos);
        cx.check_eq(r, want, "rank", || format!("{name}: rank({pos}) with len {}", m.len))?;
        let rz = cx.must("rank_zero", || s.rank_zero(pos))?;
        cx.check_eq(rz, pos - want, "rank_zero", || format!("{name}: rank_zero({pos}) with len {}", m.len))?;
    }
    Ok(())
}

pub fn count<T: BitCount>(cx: &mut Ctx, name: &str, s: &T, m: &Model, _p: &Params) -> R {
    let c = cx.must("count_ones", || s.count_ones())?;
    cx.check_eq(c, m.num_ones, "count_ones", || format!("{name}: count_ones()"))?;
    let c = cx.must("count_zeros", || s.count_zeros())?;
    cx.check_eq(c, m.len - m.num_ones, "count_zeros", || format!("{name}: count_zeros()"))
}

pub fn index<T: Index<usize, Output = bool>>(cx: &mut Ctx, name: &str, s: &T, m: &Model, p: &Params) -> R {
    let len = m.len;
    if p.wild {
        for i in [len, len + 1, len + 63, len + 64, len.wrapping_mul(2), 1 << 32, 1 << 63, usize::MAX] {
            cx.any(|| s[i]);
        }
    }
    if len == 0 {
        return Ok(());
    }
    let mut r = crate::bv::Sm(p.seed ^ 0x55);
    let n = if len <= 600 { len } else { 300 };
    for k in 0..n {
        let i = if len <= 600 { k } else if k < 130 { len - 1 - k } else { r.below(len) };
        let b = cx.must("index", || s[i])?;
        cx.check_eq(b, m.bit(i), "index", || format!("{name}: s[{i}]"))?;
    }
    Ok(())
}

fn ranks_to_probe(count: usize, p: &Params) -> Vec<usize> {
    let mut v = vec![];
    if count <= 4096 {
        v.extend(0..count);
    } else {
        let mut r = crate::bv::Sm(p.seed ^ 0xABCD);
        v.extend(0..520);
        v.extend(count - 520..count);
        for k in [1usize << 9, 1 << 10, 1 << 12, 1 << 13, 1 << 16] {
            if count > k + 1 {
                v.extend([k - 1, k, k + 1]);
            }
        }
        for _ in 0..1500 {
            v.push(r.below(count));
        }
    }
    v
}

pub fn select<T: Select + NumBits>(cx: &mut Ctx, name: &str, s: &T, m: &Model, p: &Params) -> R {
    let n1 = cx.must("num_ones", || s.num_ones())?;
    cx.check_eq(n1, m.num_ones, "num_ones", || format!("{name}: num_ones()"))?;
    for r in ranks_to_probe(m.num_ones, p) {
        let got = cx.must("select", || s.select(r))?;
        cx.check_eq(got, Some(m.ones[r]), "select", || format!("{name}: select({r}) with {} ones, len {}, params {:?}", m.num_ones, m.len, p))?;
    }
    for r in [m.num_ones, m.num_ones + 1, m.num_ones + 64, m.len, m.len + 1, usize::MAX] {
        if r >= m.num_ones {
            let got = cx.must("select", || s.select(r))?;
            cx.check_eq(got, None, "select.none", || format!("{name}: select({r}) with {} ones", m.num_ones))?;
        }
    }
    Ok(())
}

pub fn select_zero<T: SelectZero + NumBits>(cx: &mut Ctx, name: &str, s: &T, m: &Model, p: &Params) -> R {
    let nz = m.num_zeros();
    let n0 = cx.must("num_zeros", || s.num_zeros())?;
    cx.check_eq(n0, nz, "num_zeros", || format!("{name}: num_zeros()"))?;
    for r in ranks_to_probe(nz, p) {
        let got = cx.must("select_zero", || s.select_zero(r))?;
        cx.check_eq(got, Some(m.select_zero(r)), "select_zero", || format!("{name}: select_zero({r}) with {} zeros, len {}, params {:?}", nz, m.len, p))?;
    }
    for r in [nz, nz + 1, nz + 64, m.len, m.len + 1, usize::MAX] {
        if r >= nz {
            let got = cx.must("select_zero", || s.select_zero(r))?;
            cx.check_eq(got, None, "select_zero.none", || format!("{name}: select_zero({r}) with {} zeros", nz))?;
        }
    }
    Ok(())
}

/// The checks as run through the `&T` forwarding implementations (`Index` has none).
pub mod fw {
    pub use super::{count, rank, select, select_zero};
    use super::*;
    pub fn index<T>(_cx: &mut Ctx, _name: &str, _s: &T, _m: &Model, _p: &Params) -> R {
        Ok(())
    }
}

// ---- the menu ---------------------------------------------------------------

macro_rules! entry {
    ($name:expr, |$b:ident, $p:ident| $build:expr, $($chk:ident),+) => {
        Entry {
            name: $name,
            caps: &[$(stringify!($chk)),+],
            run: |cx: &mut Ctx, $b: BitVec, m: &Model, $p: &Params, what: What| -> R {
                let s = cx.must(&format!("build {}", $name), || $build)?;
                $( if what.$chk { $chk(cx, $name, &s, m, $p)?; } )+
                // the same through the `&T` forwarding implementations of the traits
                if $p.seed % 4 == 0 {
                    let r = &s;
                    $( if what.$chk { fw::$chk(cx, $name, &r, m, $p)?; } )+
                }
                Ok(())
            },
        }
    };
}

type A = AddNumBits<BitVec>;

macro_rules! const_entries {
    ($v:ident; $(($k:literal, $m:literal)),+) => {$(
        $v.push(entry!(concat!("SelectAdaptConst<AddNumBits,", $k, ",", $m, ">"), |b, _p| SelectAdaptConst::<A, Box<[usize]>, $k, $m>::new(A::from(b)), select, count, index));
        $v.push(entry!(concat!("SelectZeroAdaptConst<AddNumBits,", $k, ",", $m, ">"), |b, _p| SelectZeroAdaptConst::<A, Box<[usize]>, $k, $m>::new(A::from(b)), select_zero, count, index));
    )+};
}

macro_rules! small_entries {
    ($v:ident; $(($idx:literal, $n:literal, $w:literal)),+) => {$(
        $v.push(entry!(concat!("RankSmall", $idx), |b, _p| RankSmall::<$n, $w>::new(b), rank, count, index));
        $v.push(entry!(concat!("Box<RankSmall", $idx, ">"), |b, _p| Box::new(RankSmall::<$n, $w>::new(b)), rank));
        $v.push(entry!(concat!("SelectAdapt<RankSmall", $idx, ">"), |b, p| SelectAdapt::new(RankSmall::<$n, $w>::new(b), p.max_sub), rank, select, count, index));
        $v.push(entry!(concat!("SelectSmall", $idx, "<RankSmall>"), |b, p| SelectSmall::<$n, $w, _>::with_inv(RankSmall::<$n, $w>::new(b), p.blocks), rank, select, count, index));
        $v.push(entry!(concat!("SelectSmall", $idx, "::new"), |b, _p| SelectSmall::<$n, $w, _>::new(RankSmall::<$n, $w>::new(b)), rank, select));
        $v.push(entry!(concat!("SelectZeroSmall", $idx, "<RankSmall>"), |b, p| SelectZeroSmall::<$n, $w, _>::with_inv(RankSmall::<$n, $w>::new(b), p.blocks), rank, select_zero, count, index));
        $v.push(entry!(concat!("SelectZeroSmall", $idx, "<SelectSmall<RankSmall>>"), |b, p| SelectZeroSmall::<$n, $w, _>::with_inv(SelectSmall::<$n, $w, _>::with_inv(RankSmall::<$n, $w>::new(b), p.blocks), p.blocks), rank, select, select_zero, count, index));
        $v.push(entry!(concat!("SelectSmall", $idx, "<SelectZeroSmall<RankSmall>>"), |b, p| SelectSmall::<$n, $w, _>::with_inv(SelectZeroSmall::<$n, $w, _>::new(RankSmall::<$n, $w>::new(b)), p.blocks), rank, select, select_zero));
        $v.push(entry!(concat!("SelectAdapt<SelectZeroSmall", $idx, "<RankSmall>>"), |b, p| SelectAdapt::with_inv(SelectZeroSmall::<$n, $w, _>::new(RankSmall::<$n, $w>::new(b)), p.log2_inv, p.max_sub), rank, select, select_zero));
        $v.push(entry!(concat!("SelectAdapt::map(RankSmall", $idx, ")"), |b, p| unsafe { SelectAdapt::new(A::from(b), p.max_sub).map(|x| RankSmall::<$n, $w>::new(x.into_inner())) }, rank, select));
    )+};
}

pub fn menu() -> Vec<Entry> {
    let mut v: Vec<Entry> = vec![];
    // rank only
    v.push(entry!("Rank9", |b, _p| Rank9::new(b), rank, count, index));
    v.push(entry!("Box<Rank9>", |b, _p| Box::new(Rank9::new(b)), rank));
    v.push(entry!("Rank9<AddNumBits>", |b, _p| Rank9::new(A::from(b)), rank, count, index));
    v.push(entry!("RankSmall2<AddNumBits> (macro)", |b, _p| rank_small![2; A::from(b)], rank, count, index));
    // select over counted bits
    v.push(entry!("AddNumBits", |b, _p| A::from(b), count, index));
    v.push(entry!("SelectAdapt::new<AddNumBits>", |b, p| SelectAdapt::new(A::from(b), p.max_sub), select, count, index));
    v.push(entry!("SelectAdapt::with_span<AddNumBits>", |b, p| SelectAdapt::with_span(A::from(b), p.span, p.max_sub), select, count));
    v.push(entry!("SelectAdapt::with_inv<AddNumBits>", |b, p| SelectAdapt::with_inv(A::from(b), p.log2_inv, p.max_sub), select, count));
    v.push(entry!("SelectZeroAdapt::new<AddNumBits>", |b, p| SelectZeroAdapt::new(A::from(b), p.max_sub), select_zero, count, index));
    v.push(entry!("SelectZeroAdapt::with_span<AddNumBits>", |b, p| SelectZeroAdapt::with_span(A::from(b), p.span, p.max_sub), select_zero, count));
    v.push(entry!("SelectZeroAdapt::with_inv<AddNumBits>", |b, p| SelectZeroAdapt::with_inv(A::from(b), p.log2_inv, p.max_sub), select_zero, count));
    const_entries!(v; (0, 0), (1, 0), (2, 0), (3, 1), (4, 2), (6, 1), (8, 3), (10, 3), (12, 3), (13, 0), (3, 3), (2, 4));
    // select over rank
    v.push(entry!("SelectAdapt<Rank9>", |b, p| SelectAdapt::new(Rank9::new(b), p.max_sub), rank, select, count, index));
    v.push(entry!("SelectAdapt::with_inv<Rank9>", |b, p| SelectAdapt::with_inv(Rank9::new(b), p.log2_inv, p.max_sub), rank, select));
    v.push(entry!("SelectAdaptConst<Rank9>", |b, _p| SelectAdaptConst::<_, Box<[usize]>, 12, 3>::new(Rank9::new(b)), rank, select, count, index));
    v.push(entry!("Select9<Rank9>", |b, _p| Select9::new(Rank9::new(b)), rank, select, count, index));
    v.push(entry!("Box<Select9<Rank9>>", |b, _p| Box::new(Select9::new(Rank9::new(b))), rank, select));
    v.push(entry!("Select9<Rank9<AddNumBits>>", |b, _p| Select9::new(Rank9::new(A::from(b))), rank, select));
    // two selectors
    v.push(entry!("SelectZeroAdapt<SelectAdapt<Rank9>>", |b, p| SelectZeroAdapt::new(SelectAdapt::new(Rank9::new(b), p.max_sub), p.max_sub), rank, select, select_zero, count, index));
    v.push(entry!("SelectAdapt<SelectZeroAdapt<AddNumBits>>", |b, p| SelectAdapt::with_span(SelectZeroAdapt::with_span(A::from(b), p.span, p.max_sub), p.span, p.max_sub), select, select_zero, count, index));
    v.push(entry!("SelectZeroAdaptConst<SelectAdaptConst<AddNumBits>> (EfSeqDict stack)", |b, _p| SelectZeroAdaptConst::<_, Box<[usize]>, 12, 3>::new(SelectAdaptConst::<_, Box<[usize]>, 12, 3>::new(A::from(b))), select, select_zero, count));
    v.push(entry!("SelectZeroAdaptConst<SelectAdaptConst,2,1>", |b, _p| SelectZeroAdaptConst::<_, Box<[usize]>, 2, 1>::new(SelectAdaptConst::<_, Box<[usize]>, 3, 0>::new(A::from(b))), select, select_zero));
    v.push(entry!("SelectZeroAdapt<Select9<Rank9>>", |b, p| SelectZeroAdapt::with_inv(Select9::new(Rank9::new(b)), p.log2_inv, p.max_sub), rank, select, select_zero, count, index));
    // re-wrapped
    v.push(entry!("SelectAdapt::map(Rank9::new)", |b, p| unsafe { SelectAdapt::new(A::from(b), p.max_sub).map(Rank9::new) }, rank, select));
    small_entries!(v; (0, 2, 9), (1, 1, 9), (2, 1, 10), (3, 1, 11), (4, 3, 13));
    v
}
