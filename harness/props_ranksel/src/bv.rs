//! Bit-vector descriptions: generator (decoder), construction routes and model.

use engine::*;
use sux::bits::BitVec;

#[derive(Debug, Clone, Hash)]
pub enum Content {
    Zeros,
    Ones,
    /// density index into DENSITIES, seed
    Bernoulli(u8, u64),
    /// runs of `unit` bits, each all-0, all-1 or random according to seed
    Runs(usize, u64),
    /// sparse: explicit gaps between consecutive ones
    Gaps(Vec<usize>),
    /// explicit bits (small vectors)
    Explicit(Vec<bool>),
    /// `m` ones at the start (dense prefix) then a ragged sparse tail
    DenseThenRagged(usize, u64),
}

#[derive(Debug, Clone, Hash)]
pub enum Route {
    /// `iter().collect()`
    Collect,
    /// `from_raw_parts` over exactly the needed, clean words
    RawClean,
    /// build `len + k` bits (the extra ones set according to the seed), then `pop` k times
    PopK(usize, u64),
    /// build longer (extra bits set), `resize` down, possibly up and down again
    ResizeDown(usize, u64, bool),
    /// `from_raw_parts` over garbage beyond `len`: pattern kind, extra words
    RawDirty(u8, usize, u64),
}

#[derive(Debug, Clone, Hash)]
pub struct BvDesc {
    pub len: usize,
    pub content: Content,
    pub route: Route,
}

pub const DENSITIES: [f64; 7] = [0.5, 0.01, 0.1, 0.9, 0.99, 0.001, 0.25];
pub const GAP_MENU: [usize; 12] = [1, 2, 63, 64, 65, 511, 512, 513, 65535, 65536, 65537, 4096];

pub struct Model {
    pub len: usize,
    /// clean logical words (zero beyond len)
    pub words: Vec<usize>,
    /// ones before word w
    pub cum: Vec<usize>,
    pub ones: Vec<usize>,
    pub num_ones: usize,
}

impl Model {
    pub fn from_words(mut words: Vec<usize>, len: usize) -> Model {
        words.truncate(len.div_ceil(64));
        words.resize(len.div_ceil(64), 0);
        if len % 64 != 0 {
            let l = words.len();
            words[l - 1] &= (1usize << (len % 64)) - 1;
        }
        let mut cum = Vec::with_capacity(words.len() + 1);
        let mut c = 0;
        let mut ones = vec![];
        for (i, w) in words.iter().enumerate() {
            cum.push(c);
            c += w.count_ones() as usize;
            let mut x = *w;
            while x != 0 {
                ones.push(i * 64 + x.trailing_zeros() as usize);
                x &= x - 1;
            }
        }
        cum.push(c);
        Model { len, words, cum, ones, num_ones: c }
    }
    pub fn bit(&self, i: usize) -> bool {
        (self.words[i / 64] >> (i % 64)) & 1 != 0
    }
    /// number of ones among the first min(p, len) bits
    pub fn rank(&self, p: usize) -> usize {
        if p >= self.len {
            return self.num_ones;
        }
        self.cum[p / 64] + (self.words[p / 64] & ((1usize << (p % 64)) - 1)).count_ones() as usize
    }
    pub fn num_zeros(&self) -> usize {
        self.len - self.num_ones
    }
    /// position of the zero of rank r (r < num_zeros): binary search on rank
    pub fn select_zero(&self, r: usize) -> usize {
        // smallest p with (p+1 - rank(p+1)) > r
        let (mut lo, mut hi) = (0usize, self.len);
        while lo < hi {
            let mid = (lo + hi) / 2;
            let z = (mid + 1) - self.rank(mid + 1);
            if z > r {
                hi = mid;
            } else {
                lo = mid + 1;
            }
        }
        lo
    }
    pub fn is_constant(&self) -> bool {
        self.num_ones == 0 || self.num_ones == self.len
    }
}

pub struct Sm(pub u64);
impl Sm {
    pub fn next(&mut self) -> u64 {
        self.0 = self.0.wrapping_add(0x9E37_79B9_7F4A_7C15);
        let mut z = self.0;
        z = (z ^ (z >> 30)).wrapping_mul(0xBF58_476D_1CE4_E5B9);
        z = (z ^ (z >> 27)).wrapping_mul(0x94D0_49BB_1331_11EB);
        z ^ (z >> 31)
    }
    pub fn below(&mut self, n: usize) -> usize {
        if n == 0 {
            0
        } else {
            ((self.next() as u128 * n as u128) >> 64) as usize
        }
    }
    pub fn unit(&mut self) -> f64 {
        (self.next() >> 11) as f64 / (1u64 << 53) as f64
    }
}

pub fn decode_desc(u: &mut Unstructured, cap: usize, sparse_bias: bool) -> BvDesc {
    let c = u.int_in_range(0u8..=15).unwrap_or(0);
    let mut len = len_class(u, cap);
    let content = match c {
        0 => Content::Zeros,
        1 => Content::Ones,
        2..=5 => Content::Bernoulli(u.int_in_range(0u8..=6).unwrap_or(0), u.arbitrary().unwrap_or(0)),
        6..=8 => {
            let unit = [64usize, 512, 2048, 8192, 1024, 128][u.int_in_range(0usize..=5).unwrap_or(0)];
            Content::Runs(unit, u.arbitrary().unwrap_or(0))
        }
        9..=11 => {
            // sparse with prescribed gaps
            let n = u.int_in_range(0usize..=if sparse_bias { 40 } else { 12 }).unwrap_or(0);
            let mut gaps = vec![];
            let mut total = 0usize;
            for _ in 0..n {
                let g = match u.int_in_range(0u8..=3).unwrap_or(0) {
                    0..=2 => GAP_MENU[u.int_in_range(0usize..=GAP_MENU.len() - 1).unwrap_or(0)],
                    _ => u.int_in_range(1usize..=70000).unwrap_or(1),
                };
                if total + g > cap {
                    break;
                }
                total += g;
                gaps.push(g);
            }
            // the vector ends right after the last one, or a bit later
            len = (total + [0usize, 1, 63, 64, 200][u.int_in_range(0usize..=4).unwrap_or(0)]).min(cap.max(total));
            Content::Gaps(gaps)
        }
        12 | 13 => {
            let n = u.int_in_range(0usize..=130).unwrap_or(0);
            let v: Vec<bool> = (0..n).map(|_| u.arbitrary().unwrap_or(false)).collect();
            len = n;
            Content::Explicit(v)
        }
        _ => {
            let k = u.int_in_range(0u32..=13).unwrap_or(0);
            let m = (1usize << k) * u.int_in_range(1usize..=4).unwrap_or(1);
            Content::DenseThenRagged(m.min(len), u.arbitrary().unwrap_or(0))
        }
    };
    let route = match u.int_in_range(0u8..=9).unwrap_or(0) {
        0..=2 => Route::Collect,
        3 => Route::RawClean,
        4 | 5 => Route::PopK(u.int_in_range(1usize..=130).unwrap_or(1), u.arbitrary().unwrap_or(0)),
        6 | 7 => Route::ResizeDown(len_class(u, 1100).max(1), u.arbitrary().unwrap_or(0), u.arbitrary().unwrap_or(false)),
        _ => Route::RawDirty(u.int_in_range(0u8..=2).unwrap_or(0), u.int_in_range(0usize..=3).unwrap_or(0), u.arbitrary().unwrap_or(1)),
    };
    BvDesc { len, content, route }
}

/// The clean logical words of a description.
pub fn content_words(d: &BvDesc) -> Vec<usize> {
    let len = d.len;
    let nw = len.div_ceil(64);
    let mut w = vec![0usize; nw];
    let set = |w: &mut Vec<usize>, i: usize| {
        if i < len {
            w[i / 64] |= 1 << (i % 64)
        }
    };
    match &d.content {
        Content::Zeros => {}
        Content::Ones => w.iter_mut().for_each(|x| *x = !0),
        Content::Bernoulli(pi, seed) => {
            let p = DENSITIES[*pi as usize % DENSITIES.len()];
            let mut r = Sm(*seed);
            if (p - 0.5).abs() < 1e-9 {
                w.iter_mut().for_each(|x| *x = r.next() as usize);
            } else {
                for i in 0..len {
                    if r.unit() < p {
                        w[i / 64] |= 1 << (i % 64);
                    }
                }
            }
        }
        Content::Runs(unit, seed) => {
            let mut r = Sm(*seed);
            let mut i = 0;
            while i < len {
                let kind = r.below(5);
                let run = unit * (1 + r.below(3));
                for j in i..(i + run).min(len) {
                    let b = match kind {
                        0 | 1 => false,
                        2 | 3 => true,
                        _ => r.next() & 1 == 1,
                    };
                    if b {
                        w[j / 64] |= 1 << (j % 64);
                    }
                }
                i += run;
            }
        }
        Content::Gaps(gaps) => {
            let mut p = 0usize;
            for g in gaps {
                p += g;
                set(&mut w, p - 1);
            }
        }
        Content::Explicit(v) => {
            for (i, b) in v.iter().enumerate() {
                if *b {
                    set(&mut w, i);
                }
            }
        }
        Content::DenseThenRagged(m, seed) => {
            for i in 0..*m {
                set(&mut w, i);
            }
            let mut r = Sm(*seed);
            let mut p = *m;
            loop {
                p += 1 + r.below(300);
                if p >= len {
                    break;
                }
                set(&mut w, p);
            }
        }
    }
    if len % 64 != 0 && nw > 0 {
        w[nw - 1] &= (1usize << (len % 64)) - 1;
    }
    w
}

/// Build the bit vector through the described route; labels the case.
pub fn build(cx: &mut Ctx, d: &BvDesc) -> R<(BitVec, Model)> {
    let words = content_words(d);
    let model = Model::from_words(words.clone(), d.len);
    let len = d.len;
    let bit = |i: usize| (words[i / 64] >> (i % 64)) & 1 != 0;
    let bv = match &d.route {
        Route::Collect => {
            if len <= 1 << 16 {
                cx.must("collect", || (0..len).map(bit).collect::<BitVec>())?
            } else {
                unsafe { BitVec::from_raw_parts(words.clone(), len) }
            }
        }
        Route::RawClean => unsafe { BitVec::from_raw_parts(words.clone(), len) },
        Route::PopK(k, seed) => {
            cx.label("stale_tail");
            cx.label("route:pop");
            let mut r = Sm(*seed);
            let all_ones = r.next() % 3 != 0;
            let mut b = unsafe { BitVec::from_raw_parts(words.clone(), len) };
            cx.must("push", || {
                for _ in 0..*k {
                    b.push(all_ones || r.next() & 1 == 1);
                }
            })?;
            cx.must("pop", || {
                for _ in 0..*k {
                    b.pop();
                }
            })?;
            b
        }
        Route::ResizeDown(extra, seed, again) => {
            cx.label("stale_tail");
            cx.label("route:resize");
            let mut r = Sm(*seed);
            let mut b = unsafe { BitVec::from_raw_parts(words.clone(), len) };
            cx.must("resize up", || b.resize(len + extra, r.next() % 4 != 0))?;
            cx.must("resize down", || b.resize(len, false))?;
            if *again && len > 0 {
                // shrink further, then regrow with the right bits
                let cut = r.below(len.min(200)) + 1;
                let keep = len - cut;
                cx.must("resize down", || b.resize(keep, false))?;
                cx.must("regrow", || {
                    for i in keep..len {
                        b.push(bit(i));
                    }
                })?;
            }
            if extra + len % 64 > 64 || len % 64 == 0 {
                cx.label("stale_trailing_words");
            }
            b
        }
        Route::RawDirty(kind, extra_words, seed) => {
            cx.label("stale_tail");
            cx.label("route:raw_dirty");
            if *extra_words > 0 {
                cx.label("stale_trailing_words");
            }
            let mut r = Sm(*seed | 1);
            let mut w = words.clone();
            w.resize(w.len() + extra_words, 0);
            for (i, x) in w.iter_mut().enumerate() {
                let lo = i * 64;
                let mask: usize = if len >= lo + 64 {
                    0
                } else if len <= lo {
                    !0
                } else {
                    !0usize << (len - lo)
                };
                let g = match kind {
                    0 => !0usize,
                    1 => r.next() as usize,
                    _ => mask & mask.wrapping_neg(), // lowest bit just past the end
                };
                *x |= g & mask;
            }
            unsafe { BitVec::from_raw_parts(w, len) }
        }
    };
    cx.label_if(len == 0, "len=0");
    cx.label_if(len > 0 && len % 64 == 0, "len%64=0");
    cx.label_if(len > 0 && len % 512 == 0, "len%512=0");
    cx.label_if(len > 1 << 16, "len>2^16");
    // saturated / empty 512-bit blocks
    let mut full = false;
    let mut empty = false;
    for c in model.words.chunks(8) {
        if c.len() == 8 {
            full |= c.iter().all(|x| *x == !0);
            empty |= c.iter().all(|x| *x == 0);
        }
    }
    cx.label_if(full, "full_block");
    cx.label_if(empty, "empty_block");
    Ok((bv, model))
}
