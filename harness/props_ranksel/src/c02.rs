//! C02 — select/select_zero return the r-th one/zero for every selection structure.

use crate::bv::*;
use crate::stacks::*;
use engine::*;

pub struct C02;

impl Property for C02 {
    fn id(&self) -> &'static str {
        "C02"
    }
    fn plan(&self, tier: Tier) -> Vec<Segment> {
        vec![
            Segment::random("small", tier.pick(100_000, 1_000_000), &[0], 8, 400),
            Segment::random("medium", tier.pick(50_000, 500_000), &[1], 8, 400),
            Segment::random("sparse-large", tier.pick(10_000, 100_000), &[2], 8, 400),
            Segment::enumerated("huge(>2^32 bits)", tier.pick(10, 40), &[9]),
            // inventory entries of 16/32-bit span classes followed by an entry spanning more than 2^32 bits
            Segment::enumerated("huge-mixed-spans", tier.pick(8, 48), &[11]),
            // irregular dense vectors with long second/third upper blocks (SelectSmall's per-upper-block arithmetic)
            Segment::enumerated("huge-dense-upper-blocks", tier.pick(3, 20), &[12]),
            // inventory spans of exactly 2^32 - 1, 2^32, 2^32 + 1 (+1) bits: the 32/64-bit span boundary
            Segment::enumerated("huge-exact-2^32-spans", 12, &[13]),
        ]
    }
    fn rule(&self) -> &'static str {
        "case = (bit-vector description incl. prescribed gap lists around 2^16 and stale tails, parameters (target span, log2 ones per inventory 0..=16, max log2 words per subinventory 0..=6, blocks per inventory), a subset of the select-capable stacks of the menu) decoded from bytes; oracle = positions of ones/zeros of the logical bits; observed select(r)/select_zero(r) for every r<count (sampled above 4096) and None for r in {count, count+1, count+64, len, len+1, usize::MAX}. Non-trivial: at least two ones (resp. zeros) and len>64, or a label among span>2^16, words%4!=0&sparse, stale_tail; distinct = distinct hash of the decoded case."
    }
    fn run(&self, data: &[u8], cx: &mut Ctx) -> R {
        let (mode, rest) = data.split_first().unwrap_or((&0, &[]));
        if *mode == 9 || *mode == 11 || *mode == 12 || *mode == 13 {
            let mut b = [0u8; 8];
            b[..rest.len().min(8)].copy_from_slice(&rest[..rest.len().min(8)]);
            let j = u64::from_le_bytes(b) + if *mode == 13 { 4000 } else if *mode == 12 { 3000 } else if *mode == 11 { 2000 } else { 0 };
            cx.hash(&("huge", j));
            cx.describe(|| format!("huge case {j}: more than 2^32 bits, pattern {}", if j >= 3000 { 7 } else if j >= 2000 { 6 } else { j % 5 }));
            return crate::huge::select_case(cx, j);
        }
        let cap = match mode % 3 {
            0 => 1100,
            1 => 9000,
            _ => cx.tier.pick(1 << 19, 1 << 22),
        };
        let mut u = Unstructured::new(rest);
        let desc = decode_desc(&mut u, cap, mode % 3 == 2);
        let params = decode_params(&mut u);
        let menu = menu();
        let sel: Vec<&Entry> = menu.iter().filter(|e| e.has("select") || e.has("select_zero")).collect();
        let k = if cap > 10000 { 4 } else { 6 };
        let mut chosen: Vec<usize> = (0..k).map(|_| engine::index(&mut u, sel.len())).collect();
        chosen.sort();
        chosen.dedup();
        cx.hash(&(&desc, &params, &chosen));
        cx.describe(|| format!("{:?} {:?} stacks={:?}", desc, params, chosen.iter().map(|i| sel[*i].name).collect::<Vec<_>>()));
        let (bv, model) = build(cx, &desc)?;
        // span labels: largest gap between consecutive ones
        let maxgap = model.ones.windows(2).map(|w| w[1] - w[0]).max().unwrap_or(0);
        cx.label_if(maxgap >= 1 << 16, "span>=2^16");
        cx.label_if(model.words.len() % 4 != 0 && model.num_ones * 64 < model.len.max(1), "words%4!=0&sparse");
        cx.nontrivial_if((model.len > 64 && (model.num_ones >= 2 || model.num_zeros() >= 2)) || ["span>=2^16", "words%4!=0&sparse", "stale_tail"].iter().any(|l| cx.has_label(l)));
        for i in chosen {
            let e = sel[i];
            cx.label(&format!("s:{}", e.name));
            (e.run)(cx, bv.clone(), &model, &params, What { select: true, select_zero: true, ..Default::default() })?;
        }
        Ok(())
    }
}
