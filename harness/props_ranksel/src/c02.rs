//! C02 — select/select_zero return the r-th one/zero for every selection structure.

use crate::bv::*;
use crate::stacks::*;
use engine::*;

pub struct C02;

/// `p0` dense ones, then a group of 512 ones starting at `p` whose successor group starts at `q` with
/// floor(q/256) - floor(p/256) == B for B around every span class; `t` ones of the group are packed right before `q`.
fn span_class_case(cx: &mut Ctx, j: u64) -> R {
    const B_MENU: [usize; 15] = [256, 255, 257, 128, 127, 129, 16, 15, 17, 512, 511, 513, 2, 1, 3];
    let j = j as usize;
    let b = B_MENU[j % 15];
    let o = [0usize, 255, 100, 63][(j / 15 + j) % 4];
    let t = [511usize, 2, 256, 1, 40][(j / 5) % 5];
    let p0 = [512usize, 0, 1024][(j / 7) % 3];
    let p = (p0 / 256 + 1) * 256 + o;
    let q = (p / 256 + b) * 256 + [o, 0, 255, 1][(j / 11) % 4];
    // the group must fit: 511 further ones strictly between p and q
    let room = q - p - 1;
    if room < 511 {
        cx.label("span_class_skipped(no room)");
        return Ok(());
    }
    let t = t.min(511);
    let mut pos: Vec<usize> = (0..p0).collect();
    pos.push(p);
    let head = 511 - t;
    // `head` ones spread evenly over the front of the room left by the packed tail
    let front = room - t;
    for k in 0..head {
        pos.push(p + 1 + k * front / head.max(1));
    }
    for k in 0..t {
        pos.push(q - t + k);
    }
    pos.extend(q..q + 515);
    pos.dedup();
    let len = q + 515 + [0usize, 1, 64, 300][(j / 3) % 4];
    let mut gaps = vec![];
    let mut last = 0usize;
    for x in &pos {
        gaps.push(x + 1 - last);
        last = x + 1;
    }
    let desc = BvDesc { len, content: Content::Gaps(gaps), route: Route::RawClean };
    let params = decode_params(&mut Unstructured::new(&[(j % 17) as u8, (j % 7) as u8, (j % 8) as u8, (j % 7) as u8]));
    cx.hash(&("span-class", j));
    cx.describe(|| format!("span-class case {j}: p0={p0} p={p} q={q} (B={b} units of 256 bits) packed tail t={t} len={len} {:?}", params));
    cx.label(&format!("B={b}"));
    let (bv, model) = build(cx, &desc)?;
    if model.num_ones != pos.len() {
        return Err(Fail::mismatch("harness", format!("harness: span-class case {j} built {} ones, wanted {}", model.num_ones, pos.len())));
    }
    cx.nontrivial();
    let menu = menu();
    let sel: Vec<&Entry> = menu.iter().filter(|e| e.has("select") || e.has("select_zero")).collect();
    for (i, e) in sel.iter().enumerate() {
        if e.name.contains("Select9") || i % 9 == j % 9 {
            cx.label(&format!("s:{}", e.name));
            (e.run)(cx, bv.clone(), &model, &params, What { select: true, select_zero: true, ..Default::default() })?;
        }
    }
    Ok(())
}

impl Property for C02 {
    fn id(&self) -> &'static str {
        "C02"
    }
    fn plan(&self, tier: Tier) -> Vec<Segment> {
        vec![
            Segment::random("small", tier.pick(100_000, 1_000_000), &[0], 8, 400),
            Segment::random("medium", tier.pick(50_000, 500_000), &[1], 8, 400),
            Segment::random("sparse-large", tier.pick(10_000, 100_000), &[2], 8, 400),
            Segment::enumerated("huge(>2^32 bits)", tier.pick(10, 40), &[9]),
            // inventory entries of 16/32-bit span classes followed by an entry spanning more than 2^32 bits
            Segment::enumerated("huge-mixed-spans", tier.pick(8, 48), &[11]),
            // irregular dense vectors with long second/third upper blocks (SelectSmall's per-upper-block arithmetic)
            Segment::enumerated("huge-dense-upper-blocks", tier.pick(3, 20), &[12]),
            // inventory spans of exactly 2^32 - 1, 2^32, 2^32 + 1 (+1) bits: the 32/64-bit span boundary
            Segment::enumerated("huge-exact-2^32-spans", 12, &[13]),
            // one group of 512 ones whose extent sits at, just below and just above every span class of a
            // two-level inventory (1, 2, 16, 128, 256, 512 units of 256 bits), with its last ones packed at the end
            Segment::enumerated("span-class-boundaries", tier.pick(90, 360), &[14]),
        ]
    }
    fn rule(&self) -> &'static str {
        "case = (bit-vector description incl. prescribed gap lists around 2^16 and stale tails, parameters (target span, log2 ones per inventory 0..=16, max log2 words per subinventory 0..=6, blocks per inventory), a subset of the select-capable stacks of the menu) decoded from bytes; oracle = positions of ones/zeros of the logical bits; observed select(r)/select_zero(r) for every r<count (sampled above 4096) and None for r in {count, count+1, count+64, len, len+1, usize::MAX}. Plus an enumerated segment of vectors holding one group of 512 ones that extends over exactly B units of 256 bits for B in {1,2,3,15,16,17,127,128,129,255,256,257,511,512,513} (the span classes of two-level inventories) with 1..511 of its ones packed at its end, under every Select9 stack and a rotating ninth of the others. Non-trivial: at least two ones (resp. zeros) and len>64, or a label among span>2^16, words%4!=0&sparse, stale_tail; distinct = distinct hash of the decoded case."
    }
    fn run(&self, data: &[u8], cx: &mut Ctx) -> R {
        let (mode, rest) = data.split_first().unwrap_or((&0, &[]));
        if *mode == 9 || *mode == 11 || *mode == 12 || *mode == 13 {
            let mut b = [0u8; 8];
            b[..rest.len().min(8)].copy_from_slice(&rest[..rest.len().min(8)]);
            let j = u64::from_le_bytes(b) + if *mode == 13 { 4000 } else if *mode == 12 { 3000 } else if *mode == 11 { 2000 } else { 0 };
            cx.hash(&("huge", j));
            cx.describe(|| format!("huge case {j}: more than 2^32 bits, pattern {}", if j >= 3000 { 7 } else if j >= 2000 { 6 } else { j % 5 }));
            return crate::huge::select_case(cx, j);
        }
        if *mode == 14 {
            let mut b = [0u8; 8];
            b[..rest.len().min(8)].copy_from_slice(&rest[..rest.len().min(8)]);
            return span_class_case(cx, u64::from_le_bytes(b));
        }
        let cap = match mode % 3 {
            0 => 1100,
            1 => 9000,
            _ => cx.tier.pick(1 << 19, 1 << 22),
        };
        let mut u = Unstructured::new(rest);
        let desc = decode_desc(&mut u, cap, mode % 3 == 2);
        let params = decode_params(&mut u);
        let menu = menu();
        let sel: Vec<&Entry> = menu.iter().filter(|e| e.has("select") || e.has("select_zero")).collect();
        let k = if cap > 10000 { 4 } else { 6 };
        let mut chosen: Vec<usize> = (0..k).map(|_| engine::index(&mut u, sel.len())).collect();
        chosen.sort();
        chosen.dedup();
        cx.hash(&(&desc, &params, &chosen));
        cx.describe(|| format!("{:?} {:?} stacks={:?}", desc, params, chosen.iter().map(|i| sel[*i].name).collect::<Vec<_>>()));
        let (bv, model) = build(cx, &desc)?;
        // span labels: largest gap between consecutive ones
        let maxgap = model.ones.windows(2).map(|w| w[1] - w[0]).max().unwrap_or(0);
        cx.label_if(maxgap >= 1 << 16, "span>=2^16");
        cx.label_if(model.words.len() % 4 != 0 && model.num_ones * 64 < model.len.max(1), "words%4!=0&sparse");
        cx.nontrivial_if((model.len > 64 && (model.num_ones >= 2 || model.num_zeros() >= 2)) || ["span>=2^16", "words%4!=0&sparse", "stale_tail"].iter().any(|l| cx.has_label(l)));
        for i in chosen {
            let e = sel[i];
            cx.label(&format!("s:{}", e.name));
            (e.run)(cx, bv.clone(), &model, &params, What { select: true, select_zero: true, ..Default::default() })?;
        }
        Ok(())
    }
}
