//! One libFuzzer target for every property: the fuzzer's input IS a case byte
//! string of the property named by VERIF_FUZZ_PROP (first byte = segment
//! prefix), decoded by the same decoder as in the seeded random runs. The
//! semantic oracle runs inside the target; a failure prints a VCHECK-FAIL line
//! and aborts, so the saved artifact is a replayable case.
#![no_main]

use engine::{Ctx, Property, Tier};
use libfuzzer_sys::fuzz_target;
use std::collections::HashSet;
use std::sync::OnceLock;

struct Setup {
    prop: &'static dyn Property,
    known: HashSet<String>,
    /// prefixes of the property's *random* segments: the enumerated segments are
    /// complete in the seeded engine and contain multi-gigabyte cases that do
    /// not belong inside an instrumented fuzzing process
    prefixes: Vec<Vec<u8>>,
}

fn setup() -> &'static Setup {
    static S: OnceLock<Setup> = OnceLock::new();
    S.get_or_init(|| {
        let id = std::env::var("VERIF_FUZZ_PROP").expect("VERIF_FUZZ_PROP");
        let mut all: Vec<Box<dyn Property>> = vec![];
        all.extend(props_bits::properties());
        all.extend(props_ranksel::properties());
        all.extend(props_dict::properties());
        all.extend(props_func::properties());
        all.extend(props_misc::properties());
        let prop: &'static dyn Property = Box::leak(all.into_iter().find(|p| p.id() == id).expect("unknown property"));
        let mut known = HashSet::new();
        if let Ok(s) = std::fs::read_to_string(std::env::var("VERIF_KNOWN").unwrap_or_else(|_| "/verif/known_findings.json".into())) {
            if let Ok(v) = serde_json::from_str::<serde_json::Value>(&s) {
                for f in v["findings"].as_array().cloned().unwrap_or_default() {
                    if f["status"] == "open" {
                        if let Some(i) = f["id"].as_str() {
                            known.insert(i.to_string());
                        }
                    }
                }
            }
        }
        engine::install_panic_hook();
        let prefixes = prop.plan(Tier::Quick).into_iter().filter(|s| !s.is_enumerated()).map(|s| s.prefix).collect();
        Setup { prop, known, prefixes }
    })
}

fuzz_target!(|data: &[u8]| {
    let s = setup();
    if data.is_empty() || !s.prefixes.iter().any(|p| data.starts_with(p)) {
        return;
    }
    let mut cx = Ctx::new(false, "fuzz", Tier::Quick, &s.known, false);
    engine::take_panic();
    let r = std::panic::catch_unwind(std::panic::AssertUnwindSafe(|| s.prop.run(data, &mut cx)));
    let fail = match r {
        Ok(Ok(())) => None,
        Ok(Err(f)) => Some(format!("{}\t{}\t{}", f.class.name(), f.sig, f.msg)),
        Err(_) => {
            let (loc, msg) = engine::take_panic().unwrap_or_default();
            Some(format!("panic\t{loc}\tescaped panic: {msg}"))
        }
    };
    if let Some(f) = fail {
        eprintln!("VCHECK-FAIL {}", f.replace('\n', " "));
        std::process::abort();
    }
});
