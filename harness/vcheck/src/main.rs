//! `vcheck` — one binary, two roles: `run` (parent: orchestration only, never
//! calls the library under test) and `worker` (executes cases).

use engine::parent::{parent_main, ParentArgs};
use engine::worker::{worker_main, WorkerCfg};
use engine::{Property, Tier};
use std::collections::HashMap;
use std::path::PathBuf;

fn all() -> Vec<Box<dyn Property>> {
    let mut v = vec![];
    v.extend(props_bits::properties());
    v.extend(props_ranksel::properties());
    v.extend(props_dict::properties());
    v.extend(props_func::properties());
    v.extend(props_misc::properties());
    v
}

fn main() {
    let args: Vec<String> = std::env::args().collect();
    if args.len() < 2 {
        eprintln!("usage: vcheck run|worker|list --prop ID ...");
        std::process::exit(2);
    }
    let mode = args[1].clone();
    let mut kv: HashMap<String, String> = HashMap::new();
    let mut i = 2;
    while i < args.len() {
        if let Some(k) = args[i].strip_prefix("--") {
            let v = args.get(i + 1).cloned().unwrap_or_default();
            kv.insert(k.to_string(), v);
            i += 2;
        } else {
            i += 1;
        }
    }
    let props = all();
    if mode == "list" {
        for p in &props {
            println!("{}", p.id());
        }
        return;
    }
    let id = kv.get("prop").cloned().unwrap_or_default();
    let Some(prop) = props.iter().find(|p| p.id() == id) else {
        eprintln!("unknown property {id}");
        std::process::exit(2);
    };
    let tier = kv.get("tier").and_then(|t| Tier::parse(t)).unwrap_or(Tier::Quick);
    let seed: u64 = kv.get("seed").and_then(|s| s.parse().ok()).unwrap_or(0);
    let profile = kv.get("profile").cloned().unwrap_or_else(|| "checked".into());
    match mode.as_str() {
        "worker" => {
            let known = kv.get("known").map(|s| s.split(',').filter(|x| !x.is_empty()).map(|x| x.to_string()).collect()).unwrap_or_default();
            let strict = kv.get("strict").map(|s| s == "1").unwrap_or(false);
            worker_main(prop.as_ref(), WorkerCfg { tier, seed, strict, profile, known_open: known });
        }
        "run" => {
            let verif = PathBuf::from(kv.get("verif").cloned().unwrap_or_else(|| "/verif".into()));
            let a = ParentArgs {
                tier,
                seed,
                profile: profile.clone(),
                worker_bin: kv.get("worker-bin").map(PathBuf::from).unwrap_or_else(|| std::env::current_exe().unwrap()),
                jobs: kv.get("jobs").and_then(|s| s.parse().ok()).unwrap_or(16),
                out_json: kv.get("out").map(PathBuf::from).unwrap_or_else(|| verif.join(format!("out/runs/{id}.{profile}.json"))),
                replays_dir: verif.join("replays"),
                out_replays_dir: verif.join("out/replays"),
                known_file: verif.join("known_findings.json"),
                single_replay: kv.get("replay").map(PathBuf::from),
                replay_only: kv.get("replay-only").map(|s| s == "1").unwrap_or(false),
                scale: kv.get("scale").and_then(|s| s.parse().ok()).unwrap_or(1.0),
            };
            std::process::exit(parent_main(prop.as_ref(), a));
        }
        "dump" => {
            let dir = PathBuf::from(kv.get("dir").cloned().unwrap_or_else(|| "corpus".into()));
            let per: u64 = kv.get("n").and_then(|s| s.parse().ok()).unwrap_or(40);
            std::fs::create_dir_all(&dir).unwrap();
            for (si, seg) in prop.plan(tier).iter().enumerate() {
                for j in 0..per.min(seg.count) {
                    // spread over the segment so that all size classes occur
                    let jj = j * (seg.count / per.min(seg.count)).max(1);
                    let bytes = engine::rng::case_bytes(seed, prop.id(), si, seg, jj);
                    std::fs::write(dir.join(format!("s{si}-{jj}")), bytes).unwrap();
                }
            }
        }
        _ => {
            eprintln!("unknown mode {mode}");
            std::process::exit(2);
        }
    }
}
